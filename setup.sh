#!/bin/bash
# Offline setup: nothing to build or fetch. Verifies that the interpreter, cutplace's dependencies
# and cutplace itself (from /repo's working tree) import, and creates the output directories.
set -e
cd "$(dirname "$0")"
mkdir -p evidence replays
PYTHONDONTWRITEBYTECODE=1 /venv/bin/python - <<'PY'
import sys
sys.path.insert(0, ".")
from sim import boot
boot.boot()
import xlrd, xlsxwriter, cutplace
print("setup ok: cutplace from", cutplace.__file__, "xlrd", xlrd.__VERSION__, "xlsxwriter", xlsxwriter.__version__)
PY
