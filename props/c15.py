"""C15 — ODS sheets are read as the logical table they contain.

Peer: an independent ODF encoder (sim/peers/odf.py) with a switch for every optional encoding the
statement lists; the logical table it encoded is the oracle.  Schedule / fault space: chunk regime
under zipfile (short reads from simulated storage); fault batch with exactly one fault: archive
truncated, content.xml cut at a tag boundary, content.xml missing, not a zip, stored member bytes
corrupted, non-positive / non-numeric repeat count on columns or rows, request for a missing sheet."""
import copy
import re

from sim import core, lib, simfs
from sim.peers import odf

ID = "C15"
LEVEL = "exploration"
QUICK_RUNS = 16000
BATCH = 400
SWEEP_BATCH = 100
SWEEP_EXHAUSTIVE_NOTE = ("bounded sweep over B base documents (B = 4 quick, 40 thorough): the archive truncated at every "
                         "64th byte (every 7th byte in the thorough tier) and content.xml cut at every tag boundary")
FEATURES = ["colruns", "rowruns", "s-single", "s-noc", "paragraphs", "spans", "emptyp", "stored", "utf16", "latin1",
            "colstyle", "trailing-empty-run", "annotations", "embedded-object", "links", "header-rows", "row-groups",
            "covered-cells", "no-value-type", "no-mimetype", "filtered-rows", "sub-table", "dde-links"]
FAULT_KINDS = ["truncate", "xml-cut", "member-missing", "not-a-zip", "corrupt-member", "bad-repeat", "missing-sheet",
               "deep-nesting", "no-spreadsheet"]
RULE_TEXT = (
    "seeded scenarios: 1-3 sheets of 0-6 rows x 0-8 cells over an alphabet with runs of equal cells, equal adjacent rows, "
    "multiple / leading / trailing blanks, tabs, line breaks, XML-special and non-ASCII characters, encoded by the ODF "
    "peer with a random subset of its 23 optional encoding features, read by ods_rows(path, k) under a seeded chunk "
    "schedule; 35% carry exactly one fault; plus the bounded sweep in sweep_note. Non-trivial: the requested sheet has a "
    "non-empty cell (fault-free) / the fault fired (fault batch). Distinct: (features used in the encoding, sheet count "
    "and k, table shape, classes of special content, fault kind and position class, chunk regime)."
)
ASSUMPTIONS = [
    "cell text = paragraphs joined by LF; text:s -> blanks; text:tab -> TAB; text:line-break -> LF; spans transparent; a "
    "cell without paragraph or with an empty paragraph -> ''",
    "byte damage that leaves a readable archive with the same logical content is a legal no-op; otherwise a "
    "DataFormatError is required and no other exception type",
    "the peer is written from the ODF specification; its output is cross-checked by an independent reference decoder in "
    "every run (a disagreement is a harness failure, not a violation)",
]
COMPONENTS = {
    "real": ["cutplace.rowio.ods_rows", "zipfile", "zlib", "xml.etree.ElementTree", "io.BufferedReader"],
    "stub": ["ODF peer (encoder)", "SimFS/SimRaw (short reads)", "fault injector"],
}
PROBES_REQUIRED = ["run-of-more-than-1024-equal-cells", "used:text:a", "path-rewritten-between-two-reads", "used:office:annotation", "used:number-columns-repeated", "used:number-rows-repeated", "used:text:s", "used:text:tab",
                   "used:text:line-break", "used:text:span", "used:paragraphs", "used:empty-paragraph",
                   "used:encoding:UTF-16", "sheet:1", "sheet:2", "sheet:3"] + ["fault:" + kind for kind in FAULT_KINDS]
ALPHABETS = [["a", "b"], ["a", "", ""], ["a b", "a  b", " a", "a ", "  "], ["a\tb", "\t", "a"], ["l1\nl2", "\n", "a\n"],
             ["<&>", "ü€", "a"], ["a", "b  c\td\ne", "", "<x>"],
             # blanks between / next to white-space elements, text starting with a line break
             ["a\t \tb", "x\n y", "\t ", " \n ", "a \tb", "\nlead", "\n\n", "a\n\nb"]]


def draw_sheets(rng, swarm):
    sheets = []
    for _ in range(swarm.randint(1, 3)):
        alphabet = swarm.choice(ALPHABETS)
        table = []
        width = rng.randint(0, 8)
        for _ in range(rng.randint(0, 6)):
            if table and rng.random() < 0.3:
                table.append(list(table[-1]))
                continue
            row = []
            for _ in range(width if rng.random() < 0.7 else rng.randint(0, 8)):
                if row and rng.random() < 0.35:
                    row.append(row[-1])
                else:
                    row.append(rng.choice(alphabet))
            table.append(row)
        sheets.append(table)
    return sheets


def generate(seed, tier):
    rng = core.stream(seed, "gen")
    swarm = core.stream(seed, "swarm")
    fault_rng = core.stream(seed, "fault")
    sheets = draw_sheets(rng, swarm)
    features = sorted(swarm.sample(FEATURES, swarm.randint(0, 5)))
    sheet = swarm.randint(1, len(sheets))
    fault = None
    if swarm.random() < 0.35:
        kind = fault_rng.choice(FAULT_KINDS)
        fault = {"kind": kind, "at": fault_rng.random()}
        if kind == "bad-repeat":
            fault["on"] = fault_rng.choice(["columns", "rows"])
            fault["value"] = fault_rng.choice(["0", "-1", "x", "", "1.5", "-0", "1_0", "\u0663", "0x2", "1e1", "\uff12",
                                              # more digits than int() converts; more cells than any sheet has
                                              "9" * 4301, "99999999999999999999"])
            if swarm.random() < 0.25:
                # the count of a run of blanks (text:s text:c="N") is a number as well
                fault["on"] = "spaces"
                fault["value"] = fault_rng.choice(["x", "1_0", "-1", "1.5", "", "\uff12", "9" * 4301, "99999999999999999999"])
        if kind == "missing-sheet":
            sheet = len(sheets) + 1
    earlier = None
    if swarm.random() < 0.2:
        # the same path held another document a moment ago and was read then
        earlier = {"sheets": draw_sheets(rng, swarm), "features": sorted(swarm.sample(FEATURES, swarm.randint(0, 3)))}
    wide_run = None
    target = sheets[min(sheet, len(sheets)) - 1]
    if target and fault is None and swarm.random() < 0.03:
        # a run of equal cells far wider than anything a person types: sheets have up to 16384 columns
        wide_run = {"sheet": min(sheet, len(sheets)) - 1, "row": rng.randrange(len(target)), "at": rng.randint(0, 8),
                    "cell": rng.choice(["", "", "x"]), "count": rng.choice([1023, 1025, 2000, 16384])}
    return {"io": simfs.IoConfig.draw(swarm), "sheets": sheets, "features": features, "sheet": sheet, "fault": fault,
            "earlier_document_at_same_path": earlier, "wide_run": wide_run,
            "source": swarm.choice(["path", "path", "stream"]), "stream_read_before": swarm.random() < 0.5,
            "via": swarm.choice(["direct", "direct", "reader"])}


def expanded_sheets(scenario):
    """The sheets with the optional wide run (kept compact in the scenario) spelled out."""
    sheets = scenario["sheets"]
    wide = scenario.get("wide_run")
    if not wide or wide["sheet"] >= len(sheets) or wide["row"] >= len(sheets[wide["sheet"]]):
        return sheets
    sheets = copy.deepcopy(sheets)
    row = sheets[wide["sheet"]][wide["row"]]
    at = min(wide["at"], len(row))
    row[at:at] = [wide["cell"]] * wide["count"]
    return sheets


def build(scenario):
    """(archive bytes, used features, logical tables, fault fired?)"""
    sheets = expanded_sheets(scenario)
    features = set(scenario["features"])
    if scenario.get("wide_run"):
        features.add("colruns")  # nobody stores a run of thousands of equal cells one by one
    fault = scenario.get("fault")
    data, used, logical = odf.encode(sheets, features)
    if fault is None or fault["kind"] == "missing-sheet":
        return data, used, logical, fault is not None
    kind = fault["kind"]
    if kind == "truncate":
        cut = fault.get("cut")
        if cut is None:
            cut = 1 + int(fault["at"] * (len(data) - 2))
        return data[:max(0, min(cut, len(data) - 1))], used, logical, True
    if kind == "not-a-zip":
        return b"PK this only looks like a zip\n" if fault["at"] < 0.5 else b"a,b\n1,2\n", used, logical, True
    text = '<?xml version="1.0" encoding="UTF-8"?>\n' + odf.content_xml(sheets, features)
    if kind == "member-missing":
        return odf.archive(text.encode("utf-8"), features, members={"content.xml": None}), used, logical, True
    if kind == "xml-cut":
        boundaries = [index for index, char in enumerate(text) if char == "<" and index > 40]
        position = fault.get("boundary")
        if position is None:
            position = int(fault["at"] * len(boundaries))
        cut = boundaries[min(len(boundaries) - 1, position)]
        return odf.archive(text[:cut].encode("utf-8"), features), used, logical, True
    if kind == "corrupt-member":
        import io
        import zipfile

        with zipfile.ZipFile(io.BytesIO(data)) as archive:
            info = archive.getinfo("content.xml")
        start = info.header_offset + 30 + len(info.filename.encode("utf-8")) + len(info.extra)
        position = start + int(fault["at"] * (info.compress_size - 1))
        damaged = bytearray(data)
        for offset in range(position, min(position + 3, start + info.compress_size)):
            damaged[offset] ^= 0xFF
        return bytes(damaged), used, logical, True
    if kind == "no-spreadsheet":
        # a well-formed package whose content.xml holds no spreadsheet at all (a text document renamed to .ods, an
        # empty body): there is no sheet k, so a data-format error is due
        start = text.find("<office:spreadsheet>")
        end = text.find("</office:spreadsheet>")
        replacement = "<office:text/>" if fault["at"] < 0.5 else ""
        text = text[:start] + replacement + text[end + len("</office:spreadsheet>"):]
        return odf.archive(text.encode("utf-8"), features), used, logical, True
    if kind == "deep-nesting":
        # well-formed, but nested deeper than a recursive reader can follow: the first paragraph of the sheet gets
        # 3000 nested spans, or its rows are wrapped into 3000 nested row groups.  Either the rows come back right
        # or the document is refused with a data-format error - nothing else.
        marker = '<table:table table:name="Sheet%d">' % scenario["sheet"]
        start = text.find(marker)
        end_of_sheet = text.find("</table:table>", start)
        depth = 3000
        if fault["at"] < 0.5:
            position = text.find("<text:p>", start)
            close = text.find("</text:p>", position)
            if start < 0 or position < 0 or close > end_of_sheet:
                return data, used, logical, False
            text = text[:position + 8] + "<text:span>" * depth + text[position + 8:close] + "</text:span>" * depth + text[close:]
        else:
            position = text.find("<table:table-row", start)
            if start < 0 or position < 0 or position > end_of_sheet:
                return data, used, logical, False
            text = text[:position] + "<table:table-row-group>" * depth + text[position:end_of_sheet] + \
                "</table:table-row-group>" * depth + text[end_of_sheet:]
        return odf.archive(text.encode("utf-8"), features), used, logical, True
    if kind == "bad-repeat" and fault["on"] == "spaces":
        # put a bad count on the first run of blanks of the requested sheet
        marker = '<table:table table:name="Sheet%d">' % scenario["sheet"]
        start = text.find(marker)
        end_of_sheet = text.find("</table:table>", start)
        match = re.compile(r'<text:s( text:c="[^"]*")?/>').search(text, max(start, 0))
        if start < 0 or match is None or match.start() > end_of_sheet:
            return data, used, logical, False  # no run of blanks in this sheet
        text = text[:match.start()] + '<text:s text:c="%s"/>' % fault["value"] + text[match.end():]
        return odf.archive(text.encode("utf-8"), features), used, logical, True
    if kind == "bad-repeat":
        # put a bad repeat count on the first cell / row of the requested sheet
        attribute = "table:number-columns-repeated" if fault["on"] == "columns" else "table:number-rows-repeated"
        tag = "<table:table-cell" if fault["on"] == "columns" else "<table:table-row"
        marker = '<table:table table:name="Sheet%d">' % scenario["sheet"]
        start = text.find(marker)
        position = text.find(tag, start) if start >= 0 else -1
        end_of_sheet = text.find("</table:table>", start)
        if position < 0 or position > end_of_sheet:
            return data, used, logical, False  # the sheet has no row / cell to carry the attribute
        close = text.find(">", position)
        element = text[position:close]
        element = re.sub(r' %s="[^"]*"' % attribute, "", element)
        element = element.rstrip("/")
        self_closing = text[close - 1] == "/"
        new_element = element + ' %s="%s"' % (attribute, fault["value"]) + ("/" if self_closing else "")
        text = text[:position] + new_element + text[close:]
        return odf.archive(text.encode("utf-8"), features), used, logical, True
    raise ValueError(kind)


# ---- sweep --------------------------------------------------------------------------------------
def _base_documents(tier):
    count = 4 if tier == "quick" else 40
    documents = []
    for number in range(count):
        rng = core.stream(number, "c15-base")
        documents.append({"sheets": draw_sheets(rng, rng), "features": sorted(rng.sample(FEATURES, rng.randint(0, 4)))})
    return documents


_SWEEP = {}


def _sweep_cases(tier):
    if tier not in _SWEEP:
        cases = []
        step = 64 if tier == "quick" else 7
        for number, document in enumerate(_base_documents(tier)):
            data, _, _ = odf.encode(document["sheets"], set(document["features"]))
            for cut in range(0, len(data), step):
                cases.append((number, {"kind": "truncate", "cut": cut, "at": 0}))
            text = odf.content_xml(document["sheets"], set(document["features"]))
            boundaries = sum(1 for index, char in enumerate(text) if char == "<") - 1
            for boundary in range(boundaries):
                cases.append((number, {"kind": "xml-cut", "boundary": boundary, "at": 0}))
        _SWEEP[tier] = cases
    return _SWEEP[tier]


def sweep_size(tier):
    return len(_sweep_cases(tier))


def sweep_slice(tier, start, count):
    documents = _base_documents(tier)
    for number, fault in _sweep_cases(tier)[start:start + count]:
        document = documents[number]
        yield {"property": ID, "sweep": True, "io": {"regime": "whole"}, "sheets": document["sheets"],
               "features": document["features"], "sheet": 1, "fault": fault}


# ---- execution ----------------------------------------------------------------------------------
def _content_classes(table):
    classes = set()
    for row in table:
        for cell in row:
            if "  " in cell or cell.startswith(" ") or cell.endswith(" "):
                classes.add("blanks")
            if "\t" in cell:
                classes.add("tab")
            if "\n" in cell:
                classes.add("break")
            if any(char in cell for char in "<&>"):
                classes.add("xml")
            if any(ord(char) > 127 for char in cell):
                classes.add("non-ascii")
            if cell == "":
                classes.add("empty")
    return sorted(classes)


def execute(scenario):
    from cutplace import errors, rowio

    result = core.Result()
    history = core.History()
    fault = scenario.get("fault")
    data, used, logical, fired = build(scenario)
    if fault is None or not fired:
        # peer self-check: an independent decoder must get the logical tables back
        decoded = odf.decode_reference(data)
        if decoded != logical:
            raise RuntimeError("ODF peer and reference decoder disagree: %r vs %r" % (decoded, logical))
    fs = simfs.SimFS(simfs.IoConfig.from_dict(scenario["io"]))
    sheet = scenario["sheet"]
    earlier = scenario.get("earlier_document_at_same_path")
    if earlier:
        fs.store("data.ods", odf.encode(earlier["sheets"], set(earlier["features"]))[0])
        with simfs.Seams(fs):
            for number in range(1, len(earlier["sheets"]) + 1):
                lib.call(lambda: list(rowio.ods_rows("data.ods", number)))
        result.probe("path-rewritten-between-two-reads")
    fs.store("data.ods", data)
    with simfs.Seams(fs):
        source = "data.ods"
        if scenario.get("source") == "stream":
            # the document is handed over as a binary stream the caller has opened; the same stream object may
            # already have been used to read (another sheet of) the document
            source = fs.open_binary("data.ods")
            result.probe("source:stream")
            if scenario.get("stream_read_before"):
                lib.call(lambda: list(rowio.ods_rows(source, 1)))
                result.probe("same-stream-read-before")
        sheet_rows = logical[sheet - 1] if sheet <= len(logical) else None
        uniform = bool(sheet_rows) and len(sheet_rows[0]) >= 1 and all(len(row) == len(sheet_rows[0]) for row in sheet_rows)
        if scenario.get("via") == "reader" and source == "data.ods" and (uniform or sheet_rows is None) and not (fault and fired):
            # the same sheet through cutplace.rows under a CID of optional Text fields that names the sheet
            from cutplace import validio

            width = len(sheet_rows[0]) if sheet_rows else 1
            cid = lib.load_cid([["d", "format", "ods"], ["d", "sheet", str(sheet)]] + [
                ["f", "c%d" % index, "", "X", "", "Text", ""] for index in range(width)])
            status, value = lib.call(lambda: lib.collect_rows(validio.rows(cid, "data.ods")))
            result.probe("via:reader")
        else:
            status, value = lib.call(lambda: lib.collect_rows(rowio.ods_rows(source, sheet)))
        if source != "data.ods" and source.closed:
            raise core.Violation("caller-stream-closed-by-cutplace", [], "the stream passed in as data source is closed after the read")
    history.add("client", "ods_rows", {"sheet": sheet, "status": status,
                                       "value": value if status == "ok" else lib.error_summary(value)})
    wanted = logical[sheet - 1] if sheet <= len(logical) else None
    for name in sorted(used):
        result.probe("used:" + name)
    result.probe("sheet:%d" % sheet)
    if scenario.get("wide_run") and scenario["wide_run"]["count"] > 1024:
        result.probe("run-of-more-than-1024-equal-cells")
    if fault and fired:
        result.probe("fault:" + fault["kind"])
        result.fault(fault["kind"])
    result.nontrivial = (fired if fault else bool(wanted and any(cell for row in wanted for cell in row)))
    result.schedule_sig = [sorted(used), len(logical), sheet, [len(row) for row in (wanted or [])],
                           _content_classes(wanted or []), fault["kind"] if fault else None,
                           None if not fault else round(fault.get("at", 0), 1) if "cut" not in fault and "boundary" not in fault
                           else fault.get("cut", fault.get("boundary")), scenario["io"].get("regime")]
    result.ticks = history.ticks + fs.ticks
    result.digest = history.digest()
    result.trace = {"features_used": sorted(used), "sheet": sheet, "fault": fault, "wanted": wanted,
                    "got": value if status == "ok" else lib.error_summary(value)}
    if scenario.get("wide_run"):
        result.trace = {"features_used": sorted(used), "sheet": sheet, "wide_run": scenario["wide_run"]}

    if status == "exc" and not isinstance(value, errors.DataFormatError):
        raise core.Violation("other-exception", ["class=" + type(value).__name__] + (["fault=" + fault["kind"]] if fault else []),
                             repr(value))
    if fault is None or not fired:
        if status == "exc":
            raise core.Violation("well-formed-document-rejected", sorted("uses=" + name for name in used), repr(value))
        if value != wanted:
            culprits = _culprits(scenario, wanted, value, used)
            if scenario.get("wide_run"):
                culprits = culprits + ["wide-run"]
                raise core.Violation("sheet-differs-from-logical-table", culprits, "sheet %d: row lengths wanted %r, got %r" % (
                    sheet, [len(row) for row in wanted], [len(row) for row in value]))
            raise core.Violation("sheet-differs-from-logical-table", culprits, "sheet %d: wanted %r, got %r" % (sheet, wanted, value))
        return result
    kind = fault["kind"]
    if status == "exc":
        return result
    if kind in ("truncate", "corrupt-member", "deep-nesting") and value == wanted:
        return result  # damage that left the content intact / nesting the reader could follow
    more = ["fault=" + kind]
    if kind == "bad-repeat":
        more += ["on=" + fault["on"], "value=" + fault["value"]]
    raise core.Violation("damaged-document-read-without-error", more, "fault %r: returned %r" % (fault, value))


def _culprits(scenario, wanted, got, used):
    """Which encoding features sit in the part that differs (minimal after shrinking)."""
    culprits = set()
    if len(got) != len(wanted):
        culprits.add("row-count")
        if "number-rows-repeated" in used:
            culprits.add("uses=number-rows-repeated")
    for wanted_row, got_row in zip(wanted, got):
        if len(wanted_row) != len(got_row):
            culprits.add("cell-count")
        for wanted_cell, got_cell in zip(wanted_row, got_row):
            if wanted_cell != got_cell:
                if got_cell is None:
                    culprits.add("cell-is-None")
                for name in sorted(used):
                    if name.startswith(("text:", "paragraphs", "empty-paragraph")):
                        culprits.add("uses=" + name)
    if not culprits:
        culprits.add("content")
    return sorted(culprits)


def candidates(scenario):
    if scenario.get("sweep"):
        return
    if scenario.get("source") == "stream":
        yield lib.with_value(scenario, ["source"], "path")
        if scenario.get("stream_read_before"):
            yield lib.with_value(scenario, ["stream_read_before"], False)
    if scenario.get("wide_run"):
        yield lib.with_value(scenario, ["wide_run"], None)
        if scenario["wide_run"]["count"] > 1025:
            yield lib.with_value(scenario, ["wide_run", "count"], 1025)
        return
    sheets = scenario["sheets"]
    if len(sheets) > 1 and not (scenario.get("fault") or {}).get("kind") == "missing-sheet":
        for index in range(len(sheets)):
            if index != scenario["sheet"] - 1:
                candidate = copy.deepcopy(scenario)
                del candidate["sheets"][index]
                if index < scenario["sheet"] - 1:
                    candidate["sheet"] -= 1
                yield candidate
    for index in range(len(scenario["features"])):
        yield lib.with_value(scenario, ["features"], scenario["features"][:index] + scenario["features"][index + 1:])
    for sheet_index in range(len(sheets)):
        for candidate in lib.drop_candidates(scenario, ["sheets", sheet_index]):
            yield candidate
        for row_index, row in enumerate(sheets[sheet_index]):
            for candidate in lib.drop_candidates(scenario, ["sheets", sheet_index, row_index]):
                yield candidate
    for candidate in lib.io_candidates(scenario):
        yield candidate
    if scenario.get("earlier_document_at_same_path"):
        yield lib.with_value(scenario, ["earlier_document_at_same_path"], None)
    for sheet_index, table in enumerate(sheets):
        for row_index, row in enumerate(table):
            for cell_index, cell in enumerate(row):
                if len(cell) > 1:
                    for position in range(len(cell)):
                        candidate = copy.deepcopy(scenario)
                        candidate["sheets"][sheet_index][row_index][cell_index] = cell[:position] + cell[position + 1:]
                        yield candidate
