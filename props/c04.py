"""C04 — a row is accepted iff all cells and row checks pass; errors name the culprit.

The simulator's contribution: the row/column in an error is read from a cursor that keeps moving
while the consumer holds the error (lazy consumer inspects held errors k steps later, after
exhaustion and after close), and the rows come through four real readers fed by chunked streams
from simulated storage written by independent peers.  Fault-free batch only (faults are C06)."""
import copy
import io

from sim import core, lib, simfs, tabular

ID = "C04"
LEVEL = "exploration"
QUICK_RUNS = 12000
BATCH = 300
RULE_TEXT = (
    "seeded scenarios: CID of 1-5 fields over the 8 built-in types (+ optional IsUnique), header 0-2, table of 0-8 "
    "rows from per-field pools (accepted / rejected cells, ragged rows), stored by an independent peer as delimited, "
    "fixed, ODS or XLSX in simulated storage, read in yield mode through Reader.rows or cutplace.rows from a path, a "
    "chunked text stream or a StringIO by an eager or lazy consumer. Non-trivial: at least one data row was "
    "validated. Distinct: (format, source, api, consumer style and lag class, chunk regime, header, sequence of "
    "expected item kinds)."
)
ASSUMPTIONS = [
    "per-cell verdicts come from the real field format on a private freshly loaded Cid (C01-C03 are not re-modelled)",
    "Excel pads every row to the sheet width before validation; the model applies the same shaping",
    "for count mismatches and check rejections only row (and see-also row) are compared, the statement names no column",
    "error identity is compared on location and 'message contains the field name', never on wording",
]
COMPONENTS = {
    "real": ["cutplace.validio", "cutplace.interface", "cutplace.fields", "cutplace.checks", "cutplace.rowio readers",
             "csv", "io.TextIOWrapper/BufferedReader", "zipfile", "xml.etree.ElementTree", "xlrd"],
    "stub": ["SimFS/SimRaw", "text / ODF / XLSX peers (encoders)", "scheduler-driven client (eager / lazy)"],
}
PROBES_REQUIRED = ["stream-handed-over-behind-a-preamble", "cid-given-as-path", "cid-file-rewritten-between-two-uses", "other-data-set-validated-between-construction-and-use", "second-pass-on-the-same-reader", "zero-item-row", "error-inspected-late", "culprit-last-column", "culprit-right-after-header", "short-row", "long-row",
                   "format:delimited", "format:fixed", "format:ods", "format:excel", "check-rejection"]


def generate(seed, tier):
    rng = core.stream(seed, "gen")
    swarm = core.stream(seed, "swarm")
    fmt = swarm.choice(tabular.FORMATS)
    fields = tabular.draw_fields(swarm, fmt, swarm.randint(1, 5))
    spec = {"format": fmt, "header": swarm.choice([0, 0, 1, 2]), "sep": swarm.choice([":", "...", "…"]),
            "fields": fields, "checks": []}
    if fmt in ("delimited", "fixed"):
        spec["line_delimiter"] = swarm.choice(["lf", "crlf", "cr", "any"])
        if spec["line_delimiter"] == "any":
            spec["eol"] = swarm.choice(["\n", "\r", "\r\n"])  # what the stored file actually uses
    if swarm.random() < 0.25:
        # the data format limits the characters of every field, whatever else the field checks
        spec["props"] = [["allowed characters", "32...126"]]
    for field in fields:
        if field["type"] == "Text" and fmt != "fixed" and swarm.random() < 0.3:
            field["length"] = ""  # a Text field without any length limit
    if swarm.random() < 0.4:
        names = [field["name"] for field in fields]
        spec["checks"].append(["uniq", "IsUnique", ", ".join(swarm.sample(names, swarm.randint(1, min(2, len(names)))))])
    table = tabular.draw_table(rng, spec, 8, bad_rate=swarm.choice([0.05, 0.15, 0.3]))
    source = "path"
    if fmt in ("delimited", "fixed"):
        source = swarm.choice(["path", "stream", "stringio"])
    return {"io": simfs.IoConfig.draw(swarm), "cid": spec, "table": table, "source": source,
            "preamble": source != "path" and swarm.random() < 0.3,
            "api": swarm.choice(["Reader", "rows"]),
            "consumer": {"style": swarm.choice(["eager", "lazy"]), "lag": swarm.choice([1, 2, 3, 100])},
            "prepass": swarm.choice([None, None, None, 0, 1, 2, -1]) if source == "path" else None,
            # the CID is handed over as the path of a CSV file - which a moment ago held another definition
            "cid_as_path": swarm.choice([None, None, None, "plain", "rewritten"]),
            # another data set is validated with the same Cid object between construction and use of the reader
            "other_data_between": tabular.draw_table(rng, spec, 4, bad_rate=0.0, ragged_rate=0.0) if swarm.random() < 0.2 else None,
            "ods_features": sorted(swarm.sample(["colruns", "colstyle", "stored", "utf16", "rowruns", "spans", "links"], swarm.randint(0, 3)))}


def execute(scenario):
    result = core.Result()
    history = core.History()
    spec = scenario["cid"]
    fmt = spec["format"]
    table = scenario["table"]
    fs = simfs.SimFS(simfs.IoConfig.from_dict(scenario["io"]))
    path = tabular.data_path(spec)
    raw_bytes = tabular.store(fs, path, spec, table, features=scenario.get("ods_features"))
    raw_rows = tabular.as_read(spec, table)
    model = tabular.RefReader(spec, raw_rows)
    expected = model.items()
    lazy = scenario["consumer"]["style"] == "lazy"
    lag = scenario["consumer"]["lag"]
    mutated = None
    with simfs.Seams(fs):
        cid = lib.load_cid(tabular.cid_rows(spec))
        if scenario.get("cid_as_path"):
            if scenario["cid_as_path"] == "rewritten":
                other_spec = dict(spec, fields=spec["fields"] + [{"name": "zz_extra", "type": "Text", "empty": True}], checks=[])
                fs.store("cid.csv", lib.render_delimited(tabular.cid_rows(other_spec), ",", '"', "\n").encode("utf-8"))
                fs.store("other-" + path, raw_bytes)
                earlier = lib.ReadRun("cid.csv", "other-" + path, "Reader", "continue")
                while earlier.step():
                    pass
                earlier.close()
                result.probe("cid-file-rewritten-between-two-uses")
            fs.store("cid.csv", lib.render_delimited(tabular.cid_rows(spec), ",", '"', "\n").encode("utf-8"))
            cid = "cid.csv"
            result.probe("cid-given-as-path")
        source_kind = scenario.get("source", "path")
        file_name = path
        if source_kind != "path" and scenario.get("preamble"):
            # the caller has read a banner line off the stream before handing it over
            source = lib.stream_behind_preamble(fs, path, raw_bytes, spec.get("encoding", "utf-8"), source_kind)
            file_name = path if source_kind == "stream" else "<io>"
            result.probe("stream-handed-over-behind-a-preamble")
        elif source_kind == "stream":
            source = fs.text_stream(path, encoding=spec.get("encoding", "utf-8"), newline="")
        elif source_kind == "stringio":
            source = io.StringIO(raw_bytes.decode(spec.get("encoding", "utf-8")), newline="")
            file_name = "<io>"
        else:
            source = path
        run = lib.ReadRun(cid, source, scenario.get("api", "Reader"), "yield")
        if scenario.get("other_data_between"):
            tabular.store(fs, "other-" + path, spec, scenario["other_data_between"])
            between = lib.ReadRun(cid, "other-" + path, "Reader", "continue")
            while between.step():
                pass
            between.close()
            result.probe("other-data-set-validated-between-construction-and-use")
        prepass = scenario.get("prepass")
        if prepass is not None and scenario.get("api", "Reader") == "Reader" and source_kind == "path":
            # the same Reader object has been iterated before (k rows, or completely): the judged pass starts over
            def first_pass():
                taken = 0
                for _ in run.reader.rows():
                    taken += 1
                    if prepass >= 0 and taken >= prepass:
                        break

            lib.call(first_pass)
            run.generator = run.reader.rows()
            result.probe("second-pass-on-the-same-reader")

        def inspect(minimum_age):
            nonlocal mutated
            for error, summary, index in run.held:
                if len(run.items) - index >= minimum_age:
                    now = lib.error_summary(error)
                    text = str(error)
                    if len(run.items) - index > 1:
                        result.probe("error-inspected-late")
                    if now != summary and mutated is None:
                        mutated = (index, summary, now, text)

        while run.step():
            history.add("client", "next", run.items[-1] if run.items else None)
            inspect(lag if lazy else 0)
        inspect(0)
        run.close()
        inspect(0)
    outcome = run.outcome()
    history.add("client", "end", {"raised": outcome["raised"], "closed": outcome["closed"], "counters": outcome["counters"]})

    # reach
    result.probe("format:" + fmt)
    count = len(spec["fields"])
    for kind, payload in expected:
        if kind == "err":
            if payload["kind"] == "cell" and payload["cell"] == count - 1:
                result.probe("culprit-last-column")
            if payload["line"] == spec.get("header", 0):
                result.probe("culprit-right-after-header")
            if payload["kind"] == "check":
                result.probe("check-rejection")
    for row in raw_rows[spec.get("header", 0):]:
        if len(row) == 0:
            result.probe("zero-item-row")
        if len(row) < count:
            result.probe("short-row")
        if len(row) > count:
            result.probe("long-row")
    result.nontrivial = len(expected) > 0
    result.schedule_sig = [fmt, scenario.get("source"), scenario.get("api"), scenario["consumer"]["style"],
                           lag if lazy else 0, scenario["io"]["regime"], spec.get("header", 0),
                           [item[0] if item[0] == "row" else item[1]["kind"] for item in expected]]
    result.ticks = history.ticks + fs.ticks
    result.digest = history.digest()
    result.trace = {"expected": expected[:6], "actual": outcome["items"][:6], "closed": outcome["closed"]}

    features = ["format=" + fmt]
    changed_row = run.rows_changed()
    if changed_row is not None:
        raise core.Violation("returned-row-changed-later", features, "item %d was %r when returned, is %r after the run" % changed_row)
    if run.stream_closed_behind_callers_back():
        raise core.Violation("caller-stream-closed-by-cutplace", features, "the stream passed in as data source is closed after the run")
    if outcome["raised"] is not None:
        raise core.Violation("yield-mode-raised", features + ["class=" + outcome["raised"]["class"]],
                             "yield mode raised %r" % (outcome["raised"],))
    difference = tabular.compare_items(expected, run.items, file_name)
    if difference is not None:
        rule, more, detail = difference
        raise core.Violation(rule, features + more, detail)
    if mutated is not None:
        raise core.Violation("held-error-changed-after-yield", features,
                             "item %d: at yield %r, later %r" % (mutated[0], mutated[1], mutated[2]))
    if outcome["closed"] != "ok":
        raise core.Violation("close-failed-without-end-check", features, repr(outcome["closed"]))
    counters = outcome["counters"]
    if counters is not None:
        accepted = sum(1 for item in expected if item[0] == "row")
        if counters != [accepted, len(expected) - accepted]:
            raise core.Violation("counters", features, "counters %r, model %r" % (counters, [accepted, len(expected) - accepted]))
    return result


def candidates(scenario):
    for candidate in lib.drop_candidates(scenario, ["table"]):
        yield candidate
    for candidate in lib.drop_candidates(scenario, ["cid", "checks"]):
        yield candidate
    # drop a field together with its column
    fields = scenario["cid"]["fields"]
    if len(fields) > 1:
        for index in range(len(fields)):
            name = fields[index]["name"]
            if any(name in check[2] for check in scenario["cid"]["checks"]):
                continue
            candidate = copy.deepcopy(scenario)
            del candidate["cid"]["fields"][index]
            for row in candidate["table"]:
                if index < len(row):
                    del row[index]
            yield candidate
    for candidate in lib.io_candidates(scenario):
        yield candidate
    if scenario["cid"].get("header"):
        yield lib.with_value(scenario, ["cid", "header"], scenario["cid"]["header"] - 1)
    if scenario["cid"].get("sep") != ":":
        yield lib.with_value(scenario, ["cid", "sep"], ":")
    if scenario.get("ods_features"):
        yield lib.with_value(scenario, ["ods_features"], [])
    if scenario["consumer"]["style"] != "eager":
        yield lib.with_value(scenario, ["consumer"], {"style": "eager", "lag": 1})
    if scenario.get("source") != "path":
        yield lib.with_value(scenario, ["source"], "path")
    if scenario.get("cid_as_path"):
        yield lib.with_value(scenario, ["cid_as_path"], None)
    if scenario.get("preamble"):
        yield lib.with_value(scenario, ["preamble"], False)
    if scenario.get("prepass") is not None:
        yield lib.with_value(scenario, ["prepass"], None)
    if scenario.get("other_data_between"):
        yield lib.with_value(scenario, ["other_data_between"], None)
        for candidate in lib.drop_candidates(scenario, ["other_data_between"], minimum=1):
            yield candidate
    if scenario.get("api") != "Reader":
        yield lib.with_value(scenario, ["api"], "Reader")
    if scenario["cid"].get("line_delimiter", "lf") != "lf":
        yield lib.with_value(scenario, ["cid", "line_delimiter"], "lf")
    for index, field in enumerate(fields):
        if field.get("empty"):
            candidate = copy.deepcopy(scenario)
            candidate["cid"]["fields"][index]["empty"] = False
            yield candidate
    for row_index, row in enumerate(scenario["table"]):
        for cell_index, cell in enumerate(row):
            if cell_index < len(fields):
                good = tabular.FIELD_KINDS[fields[cell_index]["type"]][2][0]
                if cell != good:
                    candidate = copy.deepcopy(scenario)
                    candidate["table"][row_index][cell_index] = good
                    yield candidate
