"""C05 — IsUnique / DistinctCount are decided over the whole data set.

Workload: key sets of 1-3 fields over tiny alphabets (duplicates at every pair of positions within
0-10 rows), DistinctCount with every operator and thresholds 0-4, both declaration orders, rows
rejected for other reasons interleaved (they carry key values that *would* collide and must register
nothing), three error modes, delimited and fixed.  Schedule: rows are fed one ``next`` at a time;
close placement (after exhaustion; right after the first error in raise mode); chunk regime.
Oracle: reference model (dict for uniqueness, set for distinct values) - tabular.RefReader."""
import copy
import os

from sim import core, lib, simfs, tabular

ID = "C05"
LEVEL = "exploration"
QUICK_RUNS = 30000
BATCH = 600
RULE_TEXT = (
    "seeded scenarios: 1-3 key fields + 1 payload field, IsUnique over 1-3 of them and/or DistinctCount with operator "
    "in {<,<=,==,!=,>,>=} and threshold 0-4 in either declaration order; 0-10 rows over alphabets of 2-3 values with "
    "interleaved rows rejected for other reasons; error modes yield/continue/raise; Reader.rows or cutplace.rows; "
    "delimited or fixed; chunked simulated storage. Non-trivial: at least one check declared and >= 2 data rows. "
    "Distinct: (format, mode, api, check kinds in order, sequence of expected item kinds, end verdict)."
)
ASSUMPTIONS = [
    "a row reaches a check iff all its cells were accepted and no earlier-declared check rejected it",
    "at most one IsUnique check per CID, so 'registered' and 'accepted' coincide as in the statement",
    "per-cell verdicts come from the real field on a private Cid",
    "after a raise-mode stop the end-of-data verdict is judged over the rows that reached the check so far",
]
COMPONENTS = {
    "real": ["cutplace.validio", "cutplace.checks", "cutplace.interface", "cutplace.fields", "cutplace.rowio "
             "delimited_rows/fixed_rows", "csv", "io.TextIOWrapper/BufferedReader"],
    "stub": ["SimFS/SimRaw", "text peer", "stepping client"],
}
PROBES_REQUIRED = ["two-isunique-checks", "empty-key-value", "readers-built-from-the-same-cid-path", "other-cid-stepped-alternately", "api:validate-with-limit", "other-data-set-validated-before", "duplicate-right-after-rejected-row-with-same-key", "triple-occurrence", "threshold-hit-exactly",
                   "distinctcount-declared-before-isunique", "end-check-fails", "duplicate", "mode:raise", "mode:yield",
                   "mode:continue"]


def generate(seed, tier):
    rng = core.stream(seed, "gen")
    swarm = core.stream(seed, "swarm")
    fmt = swarm.choice(["delimited", "fixed"])
    key_count = swarm.randint(1, 3)
    alphabet = ["a", "b", "c"][: swarm.randint(2, 3)]
    fields = [{"name": "k%d" % index, "type": "Choice", "rule": "a,b,c", "width": 1} for index in range(key_count)]
    if key_count >= 2 and swarm.random() < 0.25:
        # free-text keys whose values contain the separator a naive concatenation of key values would use
        fields = [{"name": "k%d" % index, "type": "Text", "length": "1{sep}4", "width": 4} for index in range(key_count)]
        alphabet = ["a", "a, b", "b, a"]
        if fmt == "delimited":
            alphabet += ["a\rb", "a\nb"]  # keys that differ only in the kind of line break they contain
        if fmt == "fixed":
            alphabet.append(" a")  # differs from "a" as a key although both mean the same once blanks are dropped
    elif fmt == "delimited" and swarm.random() < 0.25:
        # key fields that may be empty: the empty value is a value like any other for both checks
        for field in fields:
            field["empty"] = True
        alphabet = alphabet[:-1] + [""]
    if key_count >= 2 and swarm.random() < 0.2:
        # field names are case-sensitive: k0 and K0 are two fields
        fields[1]["name"] = "K0"
    fields.append({"name": "n", "type": "Integer", "rule": "0{sep}9", "width": 1})
    checks = []
    kinds = swarm.choice([["IsUnique"], ["DistinctCount"], ["IsUnique", "DistinctCount"], ["IsUnique", "DistinctCount"],
                          ["DistinctCount", "IsUnique"], ["IsUnique", "IsUnique"], ["IsUnique", "IsUnique", "DistinctCount"]])
    names = [field["name"] for field in fields]
    for kind in kinds:
        if kind == "IsUnique" and checks and checks[0][1] == "IsUnique":
            # a second uniqueness check, over another key set: a row is accepted if no accepted row shares either key
            keys = [name for name in [names[-1]] + names[:key_count] if [name] != checks[0][2].split(", ")][:swarm.randint(1, 2)]
            checks.append(["uniq2", "IsUnique", ", ".join(keys)])
        elif kind == "IsUnique":
            keys = swarm.sample(names[:key_count], swarm.randint(1, key_count))
            checks.append(["uniq", "IsUnique", ", ".join(keys)])
        else:
            checks.append(["dc", "DistinctCount", "%s %s %d" % (swarm.choice(names), swarm.choice(sorted(tabular.OPERATORS)),
                                                              swarm.randint(0, 4))])
    spec = {"format": fmt, "header": swarm.choice([0, 0, 0, 1]), "sep": swarm.choice([":", "...", "…"]), "fields": fields,
            "checks": checks, "line_delimiter": swarm.choice(["lf", "crlf", "any"])}
    table = []
    bad_rate = swarm.choice([0.0, 0.1, 0.25])
    for _ in range(rng.randint(0, 10 if tier == "quick" else 14)):
        # the checks compare the texts of the row: "1" and "01" are two values
        row = [rng.choice(alphabet) for _ in range(key_count)] + [rng.choice(["1", "2"] if fmt == "fixed" else ["1", "2", "01"])]
        if rng.random() < bad_rate:
            if fmt == "delimited" and rng.random() < 0.3:
                row = row[:-1] if rng.random() < 0.5 else row + ["a"]
            else:
                index = rng.randrange(len(row))
                row[index] = "x" if index < key_count else "z"
        table.append(row)
    mode = swarm.choice(["yield", "continue", "raise"])
    prelude = None
    if swarm.random() < 0.3:
        # another data set validated with the same Cid object before (or, with an early-constructed
        # reader, in between): its keys and values must not count for this data set
        prelude = {"table": [[rng.choice(alphabet) for _ in range(key_count)] + ["1"] for _ in range(rng.randint(1, 4))],
                   "main_created_first": swarm.random() < 0.5}
    other = None
    if swarm.random() < 0.25:
        # an independent Cid object (same definition) reading other data, stepped alternately with the main run
        other = {"table": [[rng.choice(alphabet) for _ in range(key_count)] + ["1"] for _ in range(rng.randint(1, 5))]}
    return {"cid_as_path": swarm.random() < 0.3, "other_cid_interleaved": other, "prelude": prelude, "io": simfs.IoConfig.draw(swarm), "cid": spec, "table": table, "mode": mode,
            "api": swarm.choice(["Reader", "Reader", "validate"]) if mode == "raise" else swarm.choice(["Reader", "rows"]),
            "limit": swarm.choice([None, None, 0, 1, 2, 3, 5]),
            "source": swarm.choice(["path", "stream"])}


def execute(scenario):
    result = core.Result()
    history = core.History()
    spec = scenario["cid"]
    table = scenario["table"]
    mode = scenario["mode"]
    api = scenario.get("api", "Reader")
    fs = simfs.SimFS(simfs.IoConfig.from_dict(scenario["io"]))
    path = tabular.data_path(spec)
    tabular.store(fs, path, spec, table)
    raw_rows = tabular.as_read(spec, table)
    limit = scenario.get("limit") if api == "validate" else None
    model = tabular.RefReader(spec, raw_rows, until=limit, keys_of_accepted_rows_only=True)
    expected = model.items()
    two_unique = [check[1] for check in spec["checks"]].count("IsUnique") >= 2
    if two_unique:
        result.probe("two-isunique-checks")
    states = []
    with simfs.Seams(fs):
        cid = lib.load_cid(tabular.cid_rows(spec))
        cid_file = None
        if scenario.get("cid_as_path"):
            # every reader is built from the same CID *path*: each such reader is an independent validation
            # (the file exists on the real scratch disk too, for code that asks the OS about it)
            folder = os.path.join(os.environ.get("VERIF_SCRATCH", "/dev/shm/verif-scratch-x"), "c05-%d" % os.getpid())
            os.makedirs(folder, exist_ok=True)
            cid_file = os.path.join(folder, "cid.csv")
            cid_bytes = lib.render_delimited(tabular.cid_rows(spec), ",", '"', "\n").encode("utf-8")
            with open(cid_file, "wb") as stream:
                stream.write(cid_bytes)
            fs.store(cid_file, cid_bytes)
            cid = cid_file
            result.probe("readers-built-from-the-same-cid-path")
        source = path if scenario.get("source", "path") == "path" else fs.text_stream(path, newline="")
        prelude = scenario.get("prelude")
        run = None
        if prelude and prelude.get("main_created_first"):
            run = lib.ReadRun(cid, source, api, mode, until=limit)
        if prelude:
            tabular.store(fs, "prelude" + path, spec, prelude["table"])
            before = lib.ReadRun(cid, "prelude" + path, "Reader", "continue")
            while before.step():
                pass
            before.close()
            result.probe("other-data-set-validated-before")
        if run is None:
            run = lib.ReadRun(cid, source, api, mode, until=limit)
        other_run = None
        if scenario.get("other_cid_interleaved"):
            tabular.store(fs, "other" + path, spec, scenario["other_cid_interleaved"]["table"])
            other_cid = cid_file or lib.load_cid(tabular.cid_rows(spec), "other-cid")
            other_run = lib.ReadRun(other_cid, "other" + path, "Reader", "continue")
            result.probe("other-cid-stepped-alternately")
        while run.step():
            if other_run is not None:
                other_run.step()
            history.add("client", "next", run.items[-1] if run.items and not run.finished else None)
            sizes = []
            cid_object = run.reader.cid if run.reader is not None else (None if cid_file else cid)
            for check in (cid_object.check_map.values() if cid_object is not None else []):
                for attribute in ("_row_key_to_location_map", "_distinct_value_to_count_map"):
                    mapping = getattr(check, attribute, None)
                    if mapping is not None:
                        sizes.append(len(mapping))
            states.append([mode, sizes])
        run.close()
        if other_run is not None:
            while other_run.step():
                pass
            other_run.close()
    outcome = run.outcome()
    history.add("client", "end", {"raised": outcome["raised"], "closed": outcome["closed"], "counters": outcome["counters"]})

    # reach
    result.probe("mode:" + mode)
    if spec["fields"][0].get("empty") and any(row and row[0] == "" for row in table):
        result.probe("empty-key-value")
    kinds = [check[1] for check in spec["checks"]]
    if kinds == ["DistinctCount", "IsUnique"]:
        result.probe("distinctcount-declared-before-isunique")
    occurrences = {}
    previous_bad_key = None
    unique = next((check for check in spec["checks"] if check[1] == "IsUnique"), None)
    names = [field["name"] for field in spec["fields"]]
    for number, row in enumerate(raw_rows, 1):
        if number <= spec.get("header", 0) or unique is None:
            continue
        indices = [names.index(name.strip()) for name in unique[2].split(",")]
        key = tuple(row[index] for index in indices) if len(row) == len(names) else None
        item = next((it for it in expected if it[0] == "err" and it[1]["line"] == number - 1), None)
        if item is not None and item[1]["kind"] == "check":
            result.probe("duplicate")
            occurrences[key] = occurrences.get(key, 1) + 1
            if occurrences[key] >= 3:
                result.probe("triple-occurrence")
        if previous_bad_key is not None and key == previous_bad_key and (item is None or item[1]["kind"] == "check"):
            result.probe("duplicate-right-after-rejected-row-with-same-key")
        previous_bad_key = key if (item is not None and item[1]["kind"] != "check") else None
    if model.end_error() is not None:
        result.probe("end-check-fails")
    for description, kind, rule in spec["checks"]:
        if kind == "DistinctCount" and len(model.distinct[description]) == int(rule.split()[2]):
            result.probe("threshold-hit-exactly")
    result.nontrivial = bool(spec["checks"]) and len(expected) >= 2
    result.schedule_sig = [spec["format"], mode, api, kinds, scenario["io"]["regime"],
                           [item[0] if item[0] == "row" else item[1]["kind"] for item in expected], model.end_error()]
    result.state_sigs = states
    result.ticks = history.ticks + fs.ticks
    result.digest = history.digest()
    result.trace = {"expected": expected[:8], "actual": outcome["items"][:8], "raised": outcome["raised"],
                    "closed": outcome["closed"]}
    def verify(reference):
        if api == "validate":
            tabular.verify_validate(reference, run.raised, limit, path, ["api=validate"])
        else:
            tabular.verify_run(reference, run, mode, api, path, ["mode=" + mode])

    if api == "validate":
        result.probe("api:validate-with-limit" if limit is not None else "api:validate")
    try:
        verify(model)
    except core.Violation as violation:
        code_order = tabular.RefReader(spec, raw_rows, until=limit) if two_unique else None
        if code_order is None or code_order.items() == expected:
            raise
        # the statement's model and the order of the code differ for this table: is that the whole difference?
        try:
            verify(code_order)
        except core.Violation:
            raise violation
        raise core.Violation("row-rejected-as-duplicate-of-a-row-another-check-rejected", ["checks=IsUnique+IsUnique"],
                             "the outcome is the one of keys registered check by check: %s" % (violation.detail,))
    return result


def candidates(scenario):
    for candidate in lib.drop_candidates(scenario, ["table"]):
        yield candidate
    for candidate in lib.drop_candidates(scenario, ["cid", "checks"]):
        yield candidate
    if scenario.get("other_cid_interleaved"):
        yield lib.with_value(scenario, ["other_cid_interleaved"], None)
    if scenario.get("cid_as_path"):
        yield lib.with_value(scenario, ["cid_as_path"], False)
    if scenario.get("limit") is not None:
        yield lib.with_value(scenario, ["limit"], None)
    if scenario.get("prelude"):
        yield lib.with_value(scenario, ["prelude"], None)
        for candidate in lib.drop_candidates(scenario, ["prelude", "table"], minimum=1):
            yield candidate
    fields = scenario["cid"]["fields"]
    for index in range(len(fields) - 1):
        name = fields[index]["name"]
        if any(name in check[2] for check in scenario["cid"]["checks"]):
            continue
        candidate = copy.deepcopy(scenario)
        del candidate["cid"]["fields"][index]
        for row in candidate["table"] + ((candidate.get("prelude") or {}).get("table") or []):
            if index < len(row):
                del row[index]
        yield candidate
    for candidate in lib.io_candidates(scenario):
        yield candidate
    for key, value in (("header", 0), ("sep", ":"), ("line_delimiter", "lf"), ("format", "delimited")):
        if scenario["cid"].get(key) != value:
            yield lib.with_value(scenario, ["cid", key], value)
    if scenario.get("source") != "path":
        yield lib.with_value(scenario, ["source"], "path")
    if scenario.get("api") != "Reader":
        yield lib.with_value(scenario, ["api"], "Reader")
    for row_index, row in enumerate(scenario["table"]):
        for cell_index, cell in enumerate(row):
            simple = "a" if cell_index < len(fields) - 1 else "1"
            if cell != simple:
                candidate = copy.deepcopy(scenario)
                candidate["table"][row_index][cell_index] = simple
                yield candidate
