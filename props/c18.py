"""C18 — the command line's exit code reflects the validation outcome.

``applications.main(argv)`` runs in-process over simulated storage.  Workload: CID in {valid,
rejected, missing, directory} x 0-3 data files from {accepted, rejected by a field, rejected by
IsUnique, sharing keys with a sibling file, a cell too long for the csv module, missing, directory} in every order x --until in {absent,
-1, 0, k} x malformed argument lists.  Fault space: ENOENT / EISDIR on CID and data, chunk regime; the
file order is a history on the one Cid object the application shares between files.  Oracle: RefCli
built from per-file verdicts obtained through the programmatic API on a fresh Cid each."""
import copy
import contextlib
import csv
import io
import itertools

from sim import core, lib, simfs, tabular

ID = "C18"
LEVEL = "exploration"
QUICK_RUNS = 16000
BATCH = 400
FILE_KINDS = ["accepted", "rejected-field", "rejected-unique", "sibling", "missing", "directory", "io-error", "empty", "huge-cell"]
CID_KINDS = ["valid", "valid", "valid", "valid", "rejected", "missing", "directory"]
RULE_TEXT = (
    "seeded scenarios: CID kind x ordered list of 0-3 data files over the six file kinds x --until x data format "
    "(delimited, fixed, ods, excel) x chunk regime, each list also run in a second order; plus malformed argument lists. "
    "Non-trivial: at least one data file or a non-valid CID or malformed arguments. Distinct: (cid kind, ordered file "
    "kinds, until class, format, argument-error kind)."
)
ASSUMPTIONS = [
    "per-file verdicts are obtained through cutplace.validate() on a freshly loaded Cid per file",
    "where the statement yields two answers (a rejected file and an unreadable file in one list; a rejected CID and an "
    "unreadable data file) both 1 and 3 are accepted, but the answer must not depend on the order of the files",
    "unusable arguments surface as SystemExit(2) from main(), as argparse does",
    "a text file on a medium that fails with EIO somewhere inside the file 'cannot be read' (exit 3); the command line "
    "reads every named file to its end whatever --until says",
    "a list without data files only loads the CID: 0 if it is accepted",
    "a delimited file with a cell the csv module cannot read (more than 131072 characters) is judged through "
    "Reader.validate_rows(), which like the command line reads behind the validation limit (validate() stops reading there); "
    "the csv module's process-wide limit is put back to its default before each scenario",
]
COMPONENTS = {
    "real": ["cutplace.applications (main, process, CutplaceApp, argparse)", "cutplace.validio", "cutplace.interface",
             "cutplace.rowio", "csv", "io stack", "zipfile", "xlrd"],
    "stub": ["SimFS (ENOENT, EISDIR) / SimRaw", "peers"],
}
PROBES_REQUIRED = ["file-name-with-wildcard-characters", "limit-with-header", "cid:valid", "cid:rejected", "cid:missing", "cid:directory", "file:accepted", "file:rejected-field",
                   "file:rejected-unique", "file:sibling", "file:missing", "file:directory", "file:io-error", "file:huge-cell", "until:absent", "until:-1",
                   "until:0", "until:k", "args-malformed", "rejected-and-unreadable-in-one-list", "exit:0", "exit:1",
                   "exit:3", "three-files"]
BAD_ARGS = [[], ["--bogus"], ["--until", "x", "cid.csv"], ["--until", "-2", "cid.csv"], ["--until"], ["--log", "loud", "cid.csv"],
            # a file name that is the empty string: unusable (2) or, read as "a file that cannot be read", 3 - never 4
            ["cid.csv", ""], [""], ["", "data.csv"], ["cid.csv", "data.csv", ""],
            # an unusable option value is unusable whatever the CID is like
            ["--no-such-option", "cid.csv", "data.csv"], ["cid.csv", "data.csv", "-x"],
            ["--until", "-2", "rejected-cid.csv"], ["--until", "-17", "missing-cid.csv"], ["--until=-2", "rejected-cid.csv", "data.csv"]]


def _spec(fmt, header=0, end_check=False):
    checks = [["uniq", "IsUnique", "id"]]
    if end_check:
        # an end-of-data check that fails on empty data (and holds for every accepted file of this workload)
        checks.append(["some names", "DistinctCount", "name >= 1"])
    return {"format": fmt, "header": header, "sep": ":", "line_delimiter": "lf",
            "fields": [{"name": "id", "type": "Integer"}, {"name": "name", "type": "Text"}],
            "checks": checks}


def _table(kind, number, rng):
    base = 10 * number
    if kind == "accepted":
        return [[str(base + 1), "x"], [str(base + 2), "yz"]]
    if kind == "empty":
        return []  # a file without any data row (nothing at all, or only the header)
    if kind == "rejected-field":
        rows = [[str(base + 1), "x"], [str(base + 2), "yz"], [str(base + 3), "abc"]]
        rows[rng.randrange(3)][0] = "x"
        return rows
    if kind == "rejected-unique":
        rows = [[str(base + 1), "x"], [str(base + 2), "yz"], [str(base + 1), "abc"]]
        return rows
    if kind == "sibling":
        return [["1", "x"], ["2", "yz"]]  # every sibling file uses the same keys
    if kind == "io-error":
        # content that would be accepted, on a medium that fails (EIO) somewhere inside the file
        return [[str(base + 1), "x"], [str(base + 2), "yz"], [str(base + 3), "abc"], [str(base + 4), "x"]]
    if kind == "huge-cell":
        # a cell beyond what the csv module reads (131072 characters): the API refuses the file, so does the command line
        return [[str(base + 1), "x"], [str(base + 2), "y" * 131073]]
    return None


def generate(seed, tier):
    rng = core.stream(seed, "gen")
    swarm = core.stream(seed, "swarm")
    if swarm.random() < 0.06:
        return {"io": simfs.IoConfig.draw(swarm), "bad_args": swarm.choice(BAD_ARGS)}
    fmt = swarm.choice(["delimited", "delimited", "fixed", "ods", "excel"])
    files = []
    for number in range(swarm.choice([0, 1, 1, 2, 2, 3, 3])):
        kind = swarm.choice(FILE_KINDS)
        if kind == "io-error" and fmt not in ("delimited", "fixed"):
            kind = "accepted"  # the archive readers turn every failure into DataFormatError (see known finding for ODS)
        if kind == "huge-cell" and fmt != "delimited":
            kind = "accepted"  # the limit belongs to the csv module
        files.append({"kind": kind, "table": _table(kind, number, rng), "fail_at": rng.random()})
    until = swarm.choice(["absent", "absent", "-1", "0", "k"])
    order2 = list(range(len(files)))
    rng.shuffle(order2)
    return {"io": simfs.IoConfig.draw(swarm), "format": fmt, "cid_kind": swarm.choice(CID_KINDS), "files": files,
            "until": until, "k": rng.randint(1, 4), "order2": order2, "header": swarm.choice([0, 0, 1]), "end_check": swarm.random() < 0.4,
            "cid_defect": swarm.choice(["unknown-type", "duplicate-field", "check-before-field"]),
            "log": swarm.choice([None, None, "debug", "info", "warning", "error", "critical"]),
            # a file name is a name, whatever characters it is made of
            "name_style": swarm.choice(["plain", "plain", "plain", "brackets", "star", "question", "blanks", "at", "dash"])}


def _call_main(argv):
    from cutplace import applications

    sink = io.StringIO()
    try:
        with contextlib.redirect_stderr(sink), contextlib.redirect_stdout(sink):
            return "exit", applications.main(argv)
    except SystemExit as error:
        return "system-exit", error.code
    except Exception as error:  # noqa: B902
        return "exception", lib.error_summary(error)


def _cid_rows(scenario):
    rows = tabular.cid_rows(_spec(scenario["format"], scenario.get("header", 0), scenario.get("end_check", False)))
    if scenario["cid_kind"] == "rejected":
        defect = scenario.get("cid_defect", "unknown-type")
        field_rows = [index for index, row in enumerate(rows) if row[0] == "f"]
        check_rows = [index for index, row in enumerate(rows) if row[0] == "c"]
        if defect == "unknown-type":
            rows[field_rows[0]][5] = "Nope"
        elif defect == "duplicate-field":
            rows.insert(field_rows[-1] + 1, list(rows[field_rows[0]]))
        else:
            rows.insert(field_rows[0], rows.pop(check_rows[0]))
    return rows


def execute(scenario):
    result = core.Result()
    history = core.History()
    fs = simfs.SimFS(simfs.IoConfig.from_dict(scenario["io"]))
    if "bad_args" in scenario:
        with simfs.Seams(fs):
            fs.store("cid.csv", b"d,format,delimited\nf,a\n")
            fs.store("rejected-cid.csv", b"d,format,delimited\nf,a,,,,Nope\n")
            fs.store("data.csv", b"x\n")
            outcome = _call_main(["cutplace"] + scenario["bad_args"])
        history.add("client", "main", {"argv": scenario["bad_args"], "outcome": outcome})
        result.probe("args-malformed")
        result.nontrivial = True
        result.schedule_sig = ["bad-args", scenario["bad_args"]]
        result.digest = history.digest()
        result.ticks = history.ticks
        result.trace = {"argv": scenario["bad_args"], "outcome": outcome}
        empty_path = "" in scenario["bad_args"]
        if outcome != ("system-exit", 2) and not (empty_path and outcome == ("exit", 3)):
            raise core.Violation("unusable-arguments-not-exit-2", ["args=" + ("<empty file name>" if empty_path else " ".join(
                scenario["bad_args"][:1] or ["none"]))],
                                 "main(%r) -> %r" % (scenario["bad_args"], outcome))
        return result

    fmt = scenario["format"]
    # a process-wide setting of the csv module as a fresh process has it: the API verdicts are those of a caller that
    # never used the command line
    csv.field_size_limit(131072)
    if scenario.get("name_style", "plain") != "plain" and scenario["files"]:
        result.probe("file-name-with-wildcard-characters")
    spec = _spec(fmt, scenario.get("header", 0), scenario.get("end_check", False))
    cid_kind = scenario["cid_kind"]
    until = scenario["until"]
    limit = None if until in ("absent", "-1") else (0 if until == "0" else scenario["k"])
    with simfs.Seams(fs):
        if cid_kind == "directory":
            fs.mkdir("cid.csv")
        elif cid_kind != "missing":
            fs.store("cid.csv", lib.render_delimited(_cid_rows(scenario), ",", '"', "\n").encode("utf-8"))
        paths = []
        for number, entry in enumerate(scenario["files"]):
            base = {"brackets": "data[%d]", "star": "all*%d", "question": "data?%d", "blanks": " data %d", "at": "@data%d"}.get(
                scenario.get("name_style"), "data%d")
            path = tabular.data_path(spec, base % number)
            if scenario.get("name_style") == "dash" and number == 0:
                path = "-"  # a file in the current folder can be called that
            if scenario.get("name_style") == "blanks":
                path += " "  # a name is a name, blanks at either end included
            paths.append(path)
            if entry["kind"] == "directory":
                fs.mkdir(path)
            elif entry["kind"] != "missing":
                data = tabular.store(fs, path, spec, [["id", "nam"]] * spec["header"] + entry["table"])
                if entry["kind"] == "io-error":
                    fs.read_errors[path] = int(entry.get("fail_at", 0.5) * (len(data) - 1))
        # ---- per-file verdicts through the API, fresh Cid each --------------------------------
        from cutplace import errors, validio

        verdicts = []
        if cid_kind == "valid":
            for path, entry in zip(paths, scenario["files"]):
                if entry["kind"] in ("missing", "directory", "io-error"):
                    # "a named file cannot be read" is a fact about the storage, not an API verdict
                    # (validate(..., validate_until=0) for instance never opens the file)
                    verdicts.append("unreadable")
                    continue
                cid = lib.load_cid(tabular.cid_rows(spec))
                if entry["kind"] == "huge-cell":
                    # data that cannot be parsed behind the limit: validate() stops reading at the limit, the Reader
                    # (and with it the command line) reads on; this file's verdict is the Reader's
                    def through_reader(cid=cid, path=path):
                        with validio.Reader(cid, path, validate_until=limit) as reader:
                            reader.validate_rows()
                    status, value = lib.call(through_reader)
                else:
                    status, value = lib.call(validio.validate, cid, path, validate_until=limit)
                if status == "ok":
                    verdicts.append("accepted")
                elif isinstance(value, errors.CutplaceError):
                    verdicts.append("rejected")
                elif isinstance(value, OSError):
                    verdicts.append("unreadable")
                else:
                    verdicts.append("api-exception:" + type(value).__name__)
        # ---- the command line, in two orders ---------------------------------------------------
        options = [] if until == "absent" else ["--until", "-1" if until == "-1" else str(limit)]
        if scenario.get("log"):
            options = ["--log", scenario["log"]] + options  # how much is logged does not change the answer
            result.probe("log-level-given")
        outcomes = []
        orders = [list(range(len(paths)))]
        if scenario.get("order2") and scenario["order2"] != orders[0]:
            orders.append(scenario["order2"])
        for order in orders:
            argv = ["cutplace"] + options + ["cid.csv"] + [paths[index] for index in order]
            passed = list(argv)
            outcome = _call_main(passed)
            outcomes.append(outcome)
            history.add("client", "main", {"argv": argv, "outcome": outcome})
            if passed != argv:
                # the argument list belongs to the caller (it may be sys.argv, or a list used for the next call too)
                raise core.Violation("argument-list-changed-by-main", [], "main() was given %r and left it as %r" % (argv, passed))

    # ---- RefCli ------------------------------------------------------------------------------
    if cid_kind in ("missing", "directory"):
        allowed = {3}
    elif cid_kind == "rejected":
        allowed = {1}
        if any(entry["kind"] in ("missing", "directory", "io-error") for entry in scenario["files"]):
            allowed = {1, 3}
    else:
        unreadable = "unreadable" in verdicts
        rejected = "rejected" in verdicts
        if unreadable and rejected:
            allowed = {1, 3}
            result.probe("rejected-and-unreadable-in-one-list")
        elif unreadable:
            allowed = {3}
        elif rejected:
            allowed = {1}
        else:
            allowed = {0}

    if fs.stats.get("eio"):
        result.fault("eio", fs.stats["eio"])
    for name in ("enoent", "eisdir"):
        fired = sum(1 for event in fs.log if event[0] == name)
        if fired:
            result.fault(name, fired)
    result.probe("cid:" + cid_kind)
    for entry in scenario["files"]:
        result.probe("file:" + entry["kind"])
    result.probe("until:" + until)
    if scenario.get("header") and until == "k":
        result.probe("limit-with-header")
    if len(scenario["files"]) == 3:
        result.probe("three-files")
    for outcome in outcomes:
        if outcome[0] == "exit":
            result.probe("exit:%s" % outcome[1])
    result.nontrivial = bool(scenario["files"]) or cid_kind != "valid"
    result.schedule_sig = [cid_kind, [entry["kind"] for entry in scenario["files"]], until, fmt, scenario["io"]["regime"]]
    result.ticks = history.ticks + fs.ticks
    result.digest = history.digest()
    result.trace = {"cid": cid_kind, "files": [entry["kind"] for entry in scenario["files"]], "until": until,
                    "api_verdicts": verdicts, "allowed": sorted(allowed), "outcomes": outcomes}

    features = ["cid=" + cid_kind, "format=" + fmt]
    for verdict in verdicts:
        if verdict.startswith("api-exception"):
            raise core.Violation("api-raised-non-cutplace-error", features + [verdict], repr(verdicts))
    for position, outcome in enumerate(outcomes):
        if outcome[0] != "exit":
            raise core.Violation("main-did-not-return-an-exit-code", features, "%r" % (outcome,))
        code = outcome[1]
        if code not in allowed:
            kinds = sorted({entry["kind"] for entry in scenario["files"]})
            more = features + ["files=" + "+".join(kinds), "got=%s" % code, "want=" + "/".join(str(item) for item in sorted(allowed))]
            if position == 1:
                more.append("second-order")
            raise core.Violation("exit-code-differs-from-api-verdict", more,
                                 "exit %r, allowed %r; cid %s, files %r (api verdicts %r), until %s, order %r" % (
                                     code, sorted(allowed), cid_kind, [entry["kind"] for entry in scenario["files"]], verdicts,
                                     until, orders[position]))
    if len(outcomes) == 2 and outcomes[0] != outcomes[1]:
        kinds = sorted({entry["kind"] for entry in scenario["files"]})
        raise core.Violation("exit-code-depends-on-file-order", features + ["files=" + "+".join(kinds)],
                             "orders %r give %r" % (orders, outcomes))
    return result


def candidates(scenario):
    if "bad_args" in scenario:
        return
    for index in range(len(scenario["files"])):
        candidate = copy.deepcopy(scenario)
        del candidate["files"][index]
        candidate["order2"] = list(reversed(range(len(candidate["files"]))))
        yield candidate
    for candidate in lib.io_candidates(scenario):
        yield candidate
    if scenario["until"] != "absent":
        yield lib.with_value(scenario, ["until"], "absent")
    if scenario.get("log"):
        yield lib.with_value(scenario, ["log"], None)
    if scenario.get("name_style", "plain") != "plain":
        yield lib.with_value(scenario, ["name_style"], "plain")
    if scenario.get("header"):
        yield lib.with_value(scenario, ["header"], 0)
    if scenario.get("end_check"):
        yield lib.with_value(scenario, ["end_check"], False)
    if scenario["format"] != "delimited":
        yield lib.with_value(scenario, ["format"], "delimited")
    if scenario["cid_kind"] != "valid":
        yield lib.with_value(scenario, ["cid_kind"], "valid")
    if scenario.get("order2") and scenario["order2"] != list(range(len(scenario["files"]))):
        yield lib.with_value(scenario, ["order2"], list(range(len(scenario["files"]))))
    for index, entry in enumerate(scenario["files"]):
        if entry["kind"] not in ("accepted", "missing", "directory", "io-error"):
            candidate = copy.deepcopy(scenario)
            candidate["files"][index] = {"kind": "accepted", "table": _table("accepted", index, None)}
            yield candidate
        if entry.get("table") and len(entry["table"]) > 1:
            for row in range(len(entry["table"])):
                candidate = copy.deepcopy(scenario)
                del candidate["files"][index]["table"][row]
                yield candidate
