"""C08 — validation outcomes do not depend on what the CID was used for before.

Workload: histories of reads and writes on ONE shared ``Cid`` (IsUnique + DistinctCount) over
small data sets sharing key and counted values.  Schedule/fault space: abandonment point of a
read (every ``next`` boundary), close-now vs never-closed, API flavour, error mode, stream vs
path, chunk regime.  Oracle: differential — op i in the shared world vs the same op on a CID
freshly loaded from the same rows in a fresh world; outcomes must be equal.  No model of
cutplace is involved.
"""
import copy
import re

from sim import core, lib, simfs

ID = "C08"
LEVEL = "exploration"
QUICK_RUNS = 24000
BATCH = 500
RULE_TEXT = (
    "seeded histories of 1-4 (quick) / 1-8 (thorough) read/write runs on one shared Cid; each run is also "
    "executed on a freshly loaded Cid in a fresh simulated world and the two outcomes compared. Non-trivial: the "
    "history has >= 2 runs and at least one earlier run touched a data row. Distinct: tuple of (format, header, "
    "per-run (kind, api, mode, abandonment class, close placement, target kind))."
)
ASSUMPTIONS = [
    "runs of one history are consumed one after the other (the statement speaks of sequences); a never-closed run "
    "stays suspended until the history ends; a reader object may be constructed early (before earlier runs) but a "
    "writer is constructed when its run starts, because a validator that is constructed, then left idle while "
    "another run uses the same Cid, shares the Cid's check state by design",
    "close placement 'late': a run that was stepped at least once may be closed while the next run is under way; its "
    "own close verdict is then not compared (it legitimately sees the later run's state), but the run under way must "
    "not be disturbed",
    "prepass: the same Reader object may have been iterated before (one row or completely); the judged pass must equal "
    "a first pass of a new Reader",
    "outcome = returned rows, rejections (class, location, see-also, message), raised exception, close() verdict, "
    "accepted/rejected counters, writer output bytes",
    "the fresh-CID side is the same real code; only the history differs",
]
COMPONENTS = {
    "real": ["cutplace.validio Reader/Writer/rows/validate", "cutplace.interface.Cid", "cutplace.checks",
             "cutplace.rowio readers and writers", "csv", "io.TextIOWrapper/BufferedReader/BufferedWriter"],
    "stub": ["SimFS/SimRaw raw file layer with seeded short reads/writes", "scheduler-driven client"],
}
PROBES_REQUIRED = ["earlier-run-closed-while-next-run-under-way", "second-pass-on-the-same-reader", "reader-created-before-earlier-runs", "writer-after-reader", "reader-after-writer", "abandoned-then-next-run", "never-closed-then-next-run",
                   "prev-ended-in-error", "shared-key-across-runs"]

SEPS = [":", "...", "…"]


def _cid_rows(spec):
    fmt = spec["format"]
    sep = spec.get("sep", ":")
    rows = [["d", "format", fmt]]
    if spec.get("header"):
        rows.append(["d", "header", str(spec["header"])])
    if fmt == "fixed":
        rows.append(["d", "line delimiter", spec.get("line_delimiter", "lf")])
        rows.append(["f", "id", "", "", "5" if spec.get("big") else "1", "Integer", "0%s%s" % (sep, "99999" if spec.get("big") else "9")])
        rows.append(["f", "name", "", "", "2", "Text", ""])
    else:
        rows.append(["d", "line delimiter", spec.get("line_delimiter", "lf")])
        rows.append(["d", "encoding", spec.get("encoding", "utf-8")])
        rows.append(["f", "id", "", "", "", "Integer", "0%s%s" % (sep, "99999" if spec.get("big") else "9")])
        rows.append(["f", "name", "", "", "1%s2" % sep, "Text", ""])
    if spec.get("allowed"):
        rows.insert(1, ["d", "allowed characters", "32%s126" % sep])
    for check in spec["checks"]:
        rows.append(["c"] + list(check))
    return rows


def generate(seed, tier):
    rng = core.stream(seed, "gen")
    swarm = core.stream(seed, "swarm")
    fmt = swarm.choice(["delimited", "fixed"])
    checks = []
    if swarm.random() < 0.9:
        checks.append(["u", "IsUnique", swarm.choice(["id", "id", "id, name"])])
    if swarm.random() < 0.7:
        checks.append(["dc", "DistinctCount", "name %s %d" % (swarm.choice(["<=", "<", "==", ">=", "!="]), swarm.randint(1, 3))])
    if swarm.random() < 0.2:
        checks.reverse()
    spec = {"format": fmt, "header": swarm.choice([0, 0, 1]), "sep": swarm.choice(SEPS), "checks": checks,
            "line_delimiter": swarm.choice(["lf", "lf", "any", "any", "crlf"])}
    # with 'allowed characters' declared a value may be rejected for a character; data sets share such characters
    spec["allowed"] = swarm.random() < 0.3
    if fmt == "delimited" and swarm.random() < 0.2:
        # an encoding that cannot store every character that passes validation: writing such a row to a path fails
        # after the checks have seen it, reading such a file fails when it is decoded
        spec["encoding"] = "ascii"
    letters = ["a", "b", "c", "\u00fc"] if swarm.random() < 0.4 else ["a", "b", "c"]
    datasets = {}
    for name in "ABC"[: swarm.randint(1, 3)]:
        table = []
        for _ in range(rng.randint(0, 4)):
            ident = rng.choice(["1", "1", "2", "3"])
            if rng.random() < 0.08:
                ident = "x"
            table.append([ident, rng.choice(letters)])
        if rng.random() < 0.1:
            # a file that starts with a line of column names although the CID declares no header: a rejected row
            table.insert(0, ["id", "name"][:2] if spec["format"] == "delimited" else ["i", "na"])
        datasets[name] = table
    names = sorted(datasets)
    max_ops = 4 if tier == "quick" else 8
    ops = []
    for _ in range(rng.randint(1, max_ops)):
        data = rng.choice(names)
        if rng.random() < 0.6:
            size = len(datasets[data])
            stop_after = None
            if rng.random() < 0.4:
                stop_after = rng.randint(0, size + 1)
            ops.append({"op": "read", "data": data,
                        "api": rng.choice(["Reader", "Reader", "rows", "rows", "validate", "validate_rows"]),
                        "mode": rng.choice(["raise", "yield", "continue"]),
                        "stop_after": stop_after,
                        "close": rng.choice(["now", "now", "now", "never", "never", "late", "late", "early"]),
                        "source": rng.choice(["path", "stream"]),
                        "create": rng.choice(["late", "late", "early"]),
                        "prepass": rng.choice([None, None, None, 1, -1])})
        else:
            ops.append({"op": "write", "data": data, "close": rng.choice([True, True, True, False, "late"]),
                        "target": rng.choice(["path", "stream"])})
    if swarm.random() < 0.001:
        # a data set with tens of thousands of distinct keys, then small ones that share some of its last keys:
        # nothing a check remembers may depend on how much it has seen
        spec["big"] = True
        count = swarm.choice([32770, 33000, 40000, 65537])
        datasets = {"A": {"count": count, "name": "a"},
                    "B": [[str(count - 1), "b"], [str(count - 2), "a"], ["7", "c"]]}
        names = sorted(datasets)
        ops = [{"op": "read", "data": "A", "api": "Reader", "mode": swarm.choice(["raise", "continue"]), "stop_after": None,
                "close": swarm.choice(["now", "never"]), "source": "path", "create": "late", "prepass": None},
               swarm.choice([{"op": "read", "data": "B", "api": "Reader", "mode": "yield", "stop_after": None, "close": "now",
                              "source": "path", "create": "late", "prepass": None},
                             {"op": "write", "data": "B", "close": True, "target": "stream"}])]
    # under 'any' every stored data set may use its own line ending
    eols = {name: swarm.choice(["\n", "\r\n", "\r"]) for name in names}
    io_config = simfs.IoConfig.draw(swarm)
    if spec.get("encoding") == "ascii":
        # how many rows come out in front of an undecodable byte depends on the chunk schedule, which differs between
        # the shared and the fresh world: with whole-file reads it is the same in both
        io_config = dict(io_config, regime="whole", bufsize=None, textchunk=None)
    return {"io": io_config, "cid": spec, "datasets": datasets, "ops": ops, "eols": eols,
            "idle_reader_dropped_in": rng.randrange(len(ops)) if swarm.random() < 0.15 else None}


# ---- bounded sweep: every history of up to 4 runs over a fixed pool of run kinds -----------------------
SWEEP_POOL = [
    {"op": "read", "data": "A", "api": "Reader", "mode": "raise", "stop_after": None, "close": "now", "source": "path", "create": "late"},
    {"op": "read", "data": "B", "api": "Reader", "mode": "raise", "stop_after": None, "close": "now", "source": "path", "create": "late"},
    {"op": "read", "data": "B", "api": "rows", "mode": "yield", "stop_after": None, "close": "now", "source": "stream", "create": "late"},
    {"op": "read", "data": "A", "api": "Reader", "mode": "raise", "stop_after": 1, "close": "now", "source": "path", "create": "late"},
    {"op": "read", "data": "A", "api": "rows", "mode": "continue", "stop_after": 1, "close": "never", "source": "path", "create": "late"},
    {"op": "read", "data": "A", "api": "Reader", "mode": "raise", "stop_after": None, "close": "never", "source": "path", "create": "late"},
    {"op": "read", "data": "A", "api": "validate", "mode": "raise", "stop_after": None, "close": "now", "source": "path", "create": "late"},
    {"op": "write", "data": "A", "close": True, "target": "path"},
    {"op": "write", "data": "A", "close": False, "target": "stream"},
    {"op": "write", "data": "B", "close": True, "target": "stream"},
]
SWEEP_EXHAUSTIVE_NOTE = ("bounded sweep: every history of 1-4 runs over a pool of 10 run kinds (read clean file, read file "
                         "with duplicate in raise and yield mode, read and abandon after 1 row with and without close, "
                         "read without close, validate, write and close, write without close, write with a rejected row) "
                         "on data sets sharing key values, delimited format: 11 110 histories, complete")
SWEEP_BATCH = 300


def sweep_size(tier):
    return sum(len(SWEEP_POOL) ** length for length in range(1, 5))


def sweep_slice(tier, start, count):
    import copy as _copy

    base = len(SWEEP_POOL)
    for number in range(start, min(start + count, sweep_size(tier))):
        length, offset = 1, number
        while offset >= base ** length:
            offset -= base ** length
            length += 1
        ops = []
        for _ in range(length):
            offset, digit = divmod(offset, base)
            ops.append(_copy.deepcopy(SWEEP_POOL[digit]))
        yield {"property": ID, "sweep": True, "io": {"regime": "whole"},
               "cid": {"format": "delimited", "header": 0, "sep": ":",
                       "checks": [["u", "IsUnique", "id"], ["dc", "DistinctCount", "name <= 2"]]},
               "datasets": {"A": [["1", "a"], ["2", "b"]], "B": [["1", "a"], ["1", "c"], ["3", "b"]]}, "ops": ops}


def _rows(table):
    """A data set is a list of rows or, for the rare big ones, {"count": N, "name": x}: N rows with the ids 0..N-1."""
    if isinstance(table, dict):
        return [[str(number), table["name"]] for number in range(table["count"])]
    return table


def _data_bytes(spec, table, eol="\n"):
    table = _rows(table)
    delimiter = spec.get("line_delimiter", "lf")
    eol = {"lf": "\n", "crlf": "\r\n"}.get(delimiter, eol)
    if spec["format"] == "fixed":
        return lib.render_fixed(table, [5 if spec.get("big") else 1, 2], eol).encode("utf-8")
    return lib.render_delimited(table, ",", '"', eol).encode("utf-8")


class _World(object):
    def __init__(self, scenario):
        self.scenario = scenario
        self.fs = simfs.SimFS(simfs.IoConfig.from_dict(scenario["io"]))
        for name, table in scenario["datasets"].items():
            self.fs.store(name + ".txt", _data_bytes(scenario["cid"], table, (scenario.get("eols") or {}).get(name, "\n")))
        self.keep = []  # never-closed runs stay referenced until the world ends
        self.cid = None

    def load(self):
        self.cid = lib.load_cid(_cid_rows(self.scenario["cid"]))

    def create_read(self, op):
        path = op["data"] + ".txt"
        if op.get("source", "path") == "stream":
            source = self.fs.text_stream(path, encoding="utf-8", newline="")
            self.keep.append(source)
        else:
            source = path
        run = lib.ReadRun(self.cid, source, op.get("api", "Reader"), op.get("mode", "raise"))
        if op.get("close") == "early" and run.api == "Reader":
            # `return reader.rows()` from inside a with-block: the Reader is closed before its rows are asked for
            lib.call(run.reader.close)
        return run

    def create_early(self, ops):
        """Readers may be constructed long before they are consumed; consumption stays sequential."""
        self.early = {}
        for index, op in enumerate(ops):
            if op["op"] == "read" and op.get("create") == "early":
                self.early[index] = self.create_read(op)

    def drop_idle_reader(self):
        """A Reader that was constructed for this Cid, never iterated and never closed goes out of scope now - while
        another run is under way - and the garbage collector runs (it may at any moment).  Nothing may come of it."""
        if getattr(self, "idle", None) is not None:
            self.idle = None
            import gc

            gc.collect()

    def close_late_ones(self):
        """Runs of earlier ops whose owner only now gets around to closing them - while another run is under
        way.  Their own verdict is of no interest any more; the run under way must not notice."""
        pending, self.late = getattr(self, "late", []), []
        for run in pending:
            lib.call(run.close)

    def run_op(self, index, op):
        if op["op"] == "read":
            run = getattr(self, "early", {}).get(index) or self.create_read(op)
            prepass = op.get("prepass")
            if op.get("stop_after") == 0:
                prepass = None  # a judged pass that never starts would just be the earlier pass under another name
            if prepass is not None and run.api == "Reader" and op.get("source", "path") == "path":
                # the same Reader object has been iterated before (one row, or completely)
                def first_pass():
                    taken = 0
                    for _ in run.reader.rows():
                        taken += 1
                        if prepass >= 0 and taken >= prepass:
                            break

                lib.call(first_pass)  # however it ends (raise mode may stop it with the first rejection)
                run.generator = run.reader.rows()
            stop_after = op.get("stop_after")
            steps = 0
            while (stop_after is None or steps < stop_after) and run.step():
                steps += 1
                if steps == 1:
                    self.close_late_ones()
                    if index == self.scenario.get("idle_reader_dropped_in"):
                        self.drop_idle_reader()
            self.close_late_ones()
            if op.get("close", "now") == "now":
                run.close()
            elif op.get("close") == "early":
                self.keep.append(run)
            elif op.get("close") == "late" and steps > 0:
                self.late = getattr(self, "late", []) + [run]
                self.keep.append(run)
            else:
                self.keep.append(run)
            outcome = run.outcome()
            for key in ("raised", "closed"):
                # where inside its current chunk a decoder met the byte it cannot decode depends on the chunk schedule
                # (which differs between the two worlds), not on the Cid
                if isinstance(outcome.get(key), dict) and outcome[key].get("is_format_error") and outcome[key].get("message"):
                    outcome[key]["message"] = re.sub(r"in position \d+", "in position N", outcome[key]["message"])
            outcome["abandoned"] = not run.finished
            if steps == 0:
                outcome["counters"] = None  # the judged pass never started: the counters are not about it
            if op.get("close") in ("late", "early"):
                outcome["closed"] = None
            return outcome
        target = "out%d.txt" % index if op.get("target", "path") == "path" else "<stream>"
        run = lib.WriteRun(self.cid, self.fs, target)
        if run.writer is not None:
            for number, row in enumerate(_rows(self.scenario["datasets"][op["data"]])):
                run.write_row(row)
                if number == 0:
                    self.close_late_ones()
                    if index == self.scenario.get("idle_reader_dropped_in"):
                        self.drop_idle_reader()
            self.close_late_ones()
            if op.get("close", True) is True:
                run.close()
            elif op.get("close") == "late" and run.results:
                self.late = getattr(self, "late", []) + [run]
                self.keep.append(run)
            else:
                self.keep.append(run)
        outcome = run.outcome()
        if op.get("close", True) is not True:
            outcome["closed"] = None
        if op.get("close", True) is not True and target != "<stream>":
            # what an unclosed writer has flushed to storage so far depends on buffer sizes and the
            # chunk schedule, not on the CID: not part of the compared outcome
            outcome["output"] = None
        return outcome


def _check_state(cid):
    keys = distinct = -1
    for check in cid.check_map.values():
        mapping = getattr(check, "_row_key_to_location_map", None)
        if mapping is not None:
            keys = len(mapping)
        mapping = getattr(check, "_distinct_value_to_count_map", None)
        if mapping is not None:
            distinct = len(mapping)
    return keys, distinct


def _kind(op):
    if op["op"] == "write":
        return "write" + ("" if op.get("close", True) is True else "-unclosed")
    return "read"


def execute(scenario):
    result = core.Result()
    history = core.History()
    ops = scenario["ops"]
    shared = _World(scenario)
    with simfs.Seams(shared.fs):
        shared.load()
        if scenario.get("idle_reader_dropped_in") is not None:
            from cutplace import validio

            shared.idle = validio.Reader(shared.cid, sorted(scenario["datasets"])[0] + ".txt")
            result.probe("idle-reader-garbage-collected-during-a-later-run")
        shared.create_early(ops)
        shared_outcomes = []
        states = []
        for index, op in enumerate(ops):
            outcome = shared.run_op(index, op)
            shared_outcomes.append(outcome)
            history.add("client", "shared-op", {"index": index, "op": op, "outcome": outcome})
            states.append((_kind(op), op.get("close"), _check_state(shared.cid)))
    shared_ticks = shared.fs.ticks
    shared.keep.clear()
    fresh_outcomes = []
    for index, op in enumerate(ops):
        fresh = _World(scenario)
        with simfs.Seams(fresh.fs):
            fresh.load()
            # the same run on a freshly loaded Cid: a new reader's first pass, nothing else going on
            outcome = fresh.run_op(index, dict(op, prepass=None) if op["op"] == "read" else op)
        fresh.keep.clear()
        fresh_outcomes.append(outcome)
        history.add("client", "fresh-op", {"index": index, "outcome": outcome})

    # reach
    touched_rows = False
    seen_keys = set()
    for index, op in enumerate(ops):
        outcome = shared_outcomes[index]
        table = _rows(scenario["datasets"][op["data"]])
        keys = {row[0] for row in table}
        if index > 0:
            previous = ops[index - 1]
            result.probe("pair:%s->%s" % (_kind(previous), _kind(op)))
            if previous["op"] == "read" and op["op"] == "write":
                result.probe("writer-after-reader")
            if previous["op"] == "write" and op["op"] == "read":
                result.probe("reader-after-writer")
            previous_outcome = shared_outcomes[index - 1]
            if op.get("create") == "early":
                result.probe("reader-created-before-earlier-runs")
            if previous_outcome.get("abandoned"):
                result.probe("abandoned-then-next-run")
            if previous.get("close") in ("never", False):
                result.probe("never-closed-then-next-run")
            if previous.get("close") == "late":
                result.probe("earlier-run-closed-while-next-run-under-way")
            if op.get("prepass") is not None and op.get("api") == "Reader" and op.get("source") == "path":
                result.probe("second-pass-on-the-same-reader")
            if previous_outcome.get("raised") or (previous_outcome.get("closed") not in (None, "ok")):
                result.probe("prev-ended-in-error")
            if keys & seen_keys:
                result.probe("shared-key-across-runs")
        if table and (op["op"] == "write" or op.get("stop_after") != 0):
            seen_keys |= keys
            if index < len(ops) - 1:
                touched_rows = True
    result.nontrivial = len(ops) >= 2 and touched_rows
    spec = scenario["cid"]
    result.schedule_sig = [spec["format"], spec.get("header", 0)] + [
        [_kind(op), op.get("api"), op.get("mode"), op.get("create"), op.get("prepass"),
         "all" if op.get("stop_after") is None else ("zero" if op["stop_after"] == 0 else "mid"),
         str(op.get("close")), op.get("source") or op.get("target")] for op in ops]
    result.state_sigs = [list(state) for state in states]
    result.ticks = history.ticks + shared_ticks
    result.digest = history.digest()
    result.trace = [{"op": op, "shared": shared_outcomes[i]} for i, op in enumerate(ops)][:4]

    for index, op in enumerate(ops):
        if shared_outcomes[index] != fresh_outcomes[index]:
            differing = sorted(key for key in shared_outcomes[index]
                               if shared_outcomes[index].get(key) != fresh_outcomes[index].get(key))
            features = ["cur=" + op["op"]] + ["prev=" + kind for kind in sorted({o["op"] for o in ops[:index]})]
            features += ["diff=" + key for key in differing]
            result.violation = core.Violation(
                "run-outcome-differs-from-fresh-cid", features,
                "op %d %s: shared=%s fresh=%s" % (index, core.canonical(op), core.canonical(shared_outcomes[index])[:600],
                                                  core.canonical(fresh_outcomes[index])[:600])).as_dict()
            break
    return result


def candidates(scenario):
    if scenario.get("idle_reader_dropped_in") is not None:
        yield lib.with_value(scenario, ["idle_reader_dropped_in"], None)
        if scenario["idle_reader_dropped_in"] > 0:
            yield lib.with_value(scenario, ["idle_reader_dropped_in"], scenario["idle_reader_dropped_in"] - 1)
    for candidate in lib.drop_candidates(scenario, ["ops"], minimum=1):
        if candidate.get("idle_reader_dropped_in") is not None and candidate["idle_reader_dropped_in"] >= len(candidate["ops"]):
            candidate["idle_reader_dropped_in"] = len(candidate["ops"]) - 1
        yield candidate
    if scenario["cid"].get("big"):
        # a big data set shrinks by halving, never row by row
        for name in sorted(scenario["datasets"]):
            table = scenario["datasets"][name]
            if isinstance(table, dict) and table["count"] > 1:
                for count in (table["count"] // 2, table["count"] - 1):
                    yield lib.with_value(scenario, ["datasets", name, "count"], count)
        return
    for name in sorted(scenario["datasets"]):
        for candidate in lib.drop_candidates(scenario, ["datasets", name]):
            yield candidate
    for candidate in lib.drop_candidates(scenario, ["cid", "checks"]):
        yield candidate
    for candidate in lib.io_candidates(scenario):
        yield candidate
    if scenario["cid"].get("header"):
        yield lib.with_value(scenario, ["cid", "header"], 0)
    if scenario["cid"].get("sep") != ":":
        yield lib.with_value(scenario, ["cid", "sep"], ":")
    if scenario["cid"].get("line_delimiter", "lf") != "lf":
        yield lib.with_value(scenario, ["cid", "line_delimiter"], "lf")
    if scenario["cid"].get("allowed"):
        yield lib.with_value(scenario, ["cid", "allowed"], False)
    if scenario["cid"]["format"] != "delimited":
        yield lib.with_value(scenario, ["cid", "format"], "delimited")
    for index, op in enumerate(scenario["ops"]):
        simple = {"api": "Reader", "mode": "raise", "stop_after": None, "close": "now", "source": "path", "create": "late",
                  "prepass": None} \
            if op["op"] == "read" else {"close": True, "target": "path"}
        for key, value in simple.items():
            if op.get(key) != value:
                candidate = copy.deepcopy(scenario)
                candidate["ops"][index][key] = value
                yield candidate
    for name in sorted(scenario["datasets"]):
        for row_index, row in enumerate(scenario["datasets"][name]):
            for cell_index, simple in enumerate(["1", "a"]):
                if row[cell_index] != simple:
                    candidate = copy.deepcopy(scenario)
                    candidate["datasets"][name][row_index][cell_index] = simple
                    yield candidate
