"""C12 — delimited data round-trips through write and read for every accepted format.

Domain: every combination of item delimiter (14), quote character (20), escape character (2),
quoting (2) and line delimiter (4) is offered to the real ``DataFormat.set_property`` + ``validate``;
the ones it accepts *are* the domain.  Tables of strings over an alphabet made of the configured
special characters plus blank, CR, LF, x, empty and non-ASCII.  The simulator contributes the
storage pipeline: short writes through BufferedWriter, short reads through TextIOWrapper(newline=""),
CR/LF and quote characters landing on chunk boundaries.  Oracle: conservation - rows read = rows
written, same order, same cells, exactly once."""
import copy
import io
import itertools

from sim import core, lib, simfs

ID = "C12"
LEVEL = "exploration"
QUICK_RUNS = 30000
BATCH = 1000
SWEEP_BATCH = 40
ITEM_DELIMITERS = [",", ";", ":", "|", "\t", " ", "^", "#", "~", "\\", '"', "'", "!", "\x1f",
                   # characters that end a line whatever the line delimiter says: only the loader can keep them out
                   "\n", "\r"]
QUOTES = sorted("!\"#$%&'*+-/:;=?\\^_`~")
ESCAPES = ['"', "\\"]
QUOTINGS = ["minimal", "all"]
LINE_DELIMITERS = ["any", "lf", "cr", "crlf"]
CONFIGS = list(itertools.product(ITEM_DELIMITERS, QUOTES, ESCAPES, QUOTINGS, LINE_DELIMITERS))
SWEEP_EXHAUSTIVE_NOTE = ("bounded sweep: every one of the %d combinations (16 item delimiters x 20 quote characters x 2 "
                         "escape characters x 2 quoting modes x 4 line delimiters) is offered to the loader; each accepted "
                         "one round-trips K seeded tables through StringIO (K = 4 quick, 200 thorough)" % len(CONFIGS))
RULE_TEXT = (
    "seeded scenarios: a configuration drawn from the 5120 combinations (refused ones are counted, not judged) x table "
    "0-5 rows x 1-4 columns over the configured specials + blank/CR/LF/x/empty/non-ASCII x writer target (StringIO or "
    "chunked SimFS path) x reader source (stream or path) x chunk schedule; plus the bounded sweep in sweep_note. "
    "Non-trivial: configuration accepted and table has a cell containing a special character. Distinct: (configuration, "
    "target, source, chunk regime, table shape, set of special characters present)."
)
ASSUMPTIONS = [
    "the domain is what the real DataFormat.set_property/validate accepts (C11 is not re-modelled)",
    "rows have at least one column (the statement's tables are 1-4 columns wide)",
    "initial-space skipping stays off (the statement excludes it)",
]
COMPONENTS = {
    "real": ["cutplace.rowio.DelimitedRowWriter/delimited_rows", "cutplace.data.DataFormat", "csv.reader/csv.writer",
             "io.TextIOWrapper/BufferedWriter/BufferedReader/StringIO", "codecs"],
    "stub": ["SimFS/SimRaw (short reads and writes)"],
}
PROBES_REQUIRED = ["via-validating-writer-and-reader", "skip-initial-space-false-explicit", "cell-is-only-the-quote-char", "escape-char-last-in-cell", "crlf-inside-cell-with-small-chunks",
                   "single-empty-cell-row", "config-refused", "delimiter-in-cell", "line-break-in-cell", "target:path",
                   "source:path", "non-ascii-cell"]


def make_format(config, explicit_skip=False):
    """Real DataFormat for the configuration, or the InterfaceError refusing it."""
    from cutplace import data, errors

    delimiter, quote, escape, quoting, line_delimiter = config[:5]
    data_format = data.DataFormat("delimited")
    try:
        data_format.set_property("encoding", "utf-8")
        data_format.set_property("item_delimiter", str(ord(delimiter)))
        data_format.set_property("quote_character", quote)
        data_format.set_property("escape_character", escape)
        data_format.set_property("quoting", quoting)
        data_format.set_property("line_delimiter", line_delimiter)
        if explicit_skip:
            # initial-space skipping switched off explicitly instead of by default
            data_format.set_property("skip_initial_space", "false")
        data_format.validate()
    except errors.InterfaceError as error:
        return None, error
    return data_format, None


def draw_table(rng, config):
    delimiter, quote, escape, _, _ = config
    alphabet = [delimiter, quote, escape, " ", "\r", "\n", "x", "x", "ü", "\r\n"]
    if rng.random() < 0.3:
        # characters that str.splitlines() takes for line breaks but that are ordinary data in delimited files
        alphabet += ["\x0b", "\x0c", "\x1c", "\x85", "\u2028"]
    if rng.random() < 0.15:
        # characters that some tools treat as "not data": NUL, the byte order mark, the DOS end-of-file mark
        alphabet += ["\x00", "\ufeff", "\x1a"]
    if rng.random() < 0.15:
        # text that is not in Unicode normal form C is text all the same: a letter with a combining mark, the Angstrom sign
        alphabet += ["u\u0308", "\u212b", "\u1100\u1161"]
    table = []
    columns = rng.randint(1, 4)
    for _ in range(rng.randint(0, 5)):
        row = []
        for _ in range(columns if rng.random() < 0.8 else rng.randint(1, 4)):
            row.append("".join(rng.choice(alphabet) for _ in range(rng.choice([0, 1, 1, 2, 3]))))
        table.append(row)
    if table and rng.random() < 0.04:
        # what a tool would take for a hint or a comment is a row like any other: "sep=", "#", the byte order mark alone
        table[0] = [rng.choice(["sep=", "sep=" + delimiter, "#", "\ufeff"])] + [""] * (len(table[0]) - 1)
    return table


def generate(seed, tier):
    rng = core.stream(seed, "gen")
    swarm = core.stream(seed, "swarm")
    config = list(swarm.choice(CONFIGS))
    if swarm.random() < 0.03:
        # other spellings and other modes of the csv module: whatever the loader accepts has to round-trip
        config[3] = swarm.choice(["none", "None", "nonnumeric", "notnull", "strings", "ALL", "Minimal", "minimum"])
    table = draw_table(rng, config)
    if swarm.random() < 0.004:
        # a physical line longer than any buffer although every cell is of modest size (well below the 131072
        # characters the csv module takes per field): four cells of 40000 characters
        table = [["".join(rng.choice(["x", "y", config[0], config[1], " "]) for _ in range(8)) * 5000 for _ in range(4)],
                 ["a", "b", "c", "d"]]
    via = swarm.choice(["rowio", "rowio", "validio"])
    if via == "validio" and table:
        # through a CID: every row needs as many items as the CID has (Text) fields
        width = max(len(row) for row in table)
        table = [row + ["x"] * (width - len(row)) for row in table]
    return {"io": simfs.IoConfig.draw(swarm), "config": config, "table": table, "via": via,
            "one_shot_rows": swarm.random() < 0.5,
            # reading back with a validation limit: rows beyond it are returned all the same
            "read_limit": swarm.choice([None, None, 0, 1, 2]), "preamble": swarm.random() < 0.25,
            "explicit_skip": swarm.random() < 0.5,
            "target": swarm.choice(["stream", "path"]), "source": swarm.choice(["stream", "path"])}


def sweep_size(tier):
    return len(CONFIGS)


def sweep_slice(tier, start, count):
    for index in range(start, min(start + count, len(CONFIGS))):
        yield {"property": ID, "sweep_config": index, "tables": 4 if tier == "quick" else 200}


def round_trip(data_format, table, fs, target, source, preamble=False):
    """Write ``table`` and read it back; returns ("ok", rows) / ("write-exc", e) / ("read-exc", e)."""
    from cutplace import rowio

    if target == "path":
        status, value = lib.call(_write, rowio, "out.csv", data_format, table)
        if status == "exc":
            return "write-exc", value
        text = None
    else:
        stream = io.StringIO(newline="")
        status, value = lib.call(_write, rowio, stream, data_format, table)
        if status == "exc":
            return "write-exc", value
        text = stream.getvalue()
        if source == "path" or source == "stream" and fs is not None and fs.config.regime != "whole":
            fs.store("out.csv", text.encode("utf-8"))
    if preamble and source == "stream":
        # the table sits behind a banner line the caller has consumed itself before handing the stream over
        data = text.encode("utf-8") if text is not None else bytes(fs.files["out.csv"])
        kind = "stringio" if fs is None or fs.config.regime == "whole" else "stream"
        reader_source = lib.stream_behind_preamble(fs, "out.csv", data, "utf-8", kind)
    elif text is not None and not (fs is not None and "out.csv" in fs.files):
        reader_source = io.StringIO(text, newline="")
    elif source == "path":
        reader_source = "out.csv"
    else:
        reader_source = fs.text_stream("out.csv", encoding="utf-8", newline="")
    status, value = lib.call(lambda: lib.collect_rows(rowio.delimited_rows(reader_source, data_format)))
    return ("ok" if status == "ok" else "read-exc"), value


def cid_for(config, width, explicit_skip):
    """The same configuration spelled as a CID with ``width`` Text fields (loaded by the real Cid)."""
    delimiter, quote, escape, quoting, line_delimiter = config[:5]
    rows = [["d", "format", "delimited"], ["d", "encoding", "utf-8"], ["d", "item delimiter", str(ord(delimiter))],
            ["d", "quote character", quote], ["d", "escape character", escape], ["d", "quoting", quoting],
            ["d", "line delimiter", line_delimiter]]
    if explicit_skip:
        rows.append(["d", "skip initial space", "false"])
    rows += [["f", "c%d" % index, "", "X", "", "Text", ""] for index in range(width)]
    return lib.call(lib.load_cid, rows)


def round_trip_validio(cid, table, fs, target, source, one_shot=False, read_limit=None):
    """Write through cutplace.Writer and read back through cutplace.rows under the same Cid."""
    import cutplace

    if target == "path":
        actual_target = "out.csv"
    else:
        actual_target = io.StringIO(newline="")

    def write():
        given = [list(row) for row in table]
        writer = cutplace.Writer(cid, actual_target)
        try:
            if one_shot:
                writer.write_rows(iter(given))  # any iterable of rows, also a one-shot one
            else:
                for row in given:
                    writer.write_row(row)
        finally:
            writer.close()
        lib.check_rows_untouched(given, table)

    status, value = lib.call(write)
    if status == "exc":
        return "write-exc", value
    if target != "path":
        text = actual_target.getvalue()
        if source == "path":
            fs.store("out.csv", text.encode("utf-8"))
            reader_source = "out.csv"
        else:
            reader_source = io.StringIO(text, newline="")
    else:
        reader_source = "out.csv" if source == "path" else fs.text_stream("out.csv", encoding="utf-8", newline="")
    status, value = lib.call(lambda: lib.collect_rows(cutplace.rows(cid, reader_source, validate_until=read_limit)))
    return ("ok" if status == "ok" else "read-exc"), value


def _write(rowio, target, data_format, table):
    given = [list(row) for row in table]
    writer = rowio.DelimitedRowWriter(target, data_format)
    try:
        for row in given:
            writer.write_row(row)
    finally:
        writer.close()
    lib.check_rows_untouched(given, table)


def _features(config, table):
    delimiter, quote, escape, quoting, line_delimiter = config
    present = set()
    for row in table:
        for cell in row:
            if delimiter in cell:
                present.add("cell-has-delimiter")
            if quote in cell:
                present.add("cell-has-quote")
            if escape in cell:
                present.add("cell-has-escape")
            if "\r" in cell or "\n" in cell:
                present.add("cell-has-line-break")
    features = sorted(present)
    if delimiter == escape:
        # the item delimiter doubles as escape character: every record separator escapes what follows it.
        # This one culprit explains the failure whatever the cells hold, so it is the whole signature.
        return ["delimiter-equals-escape"]
    if escape != quote:
        features.append("escape-differs-from-quote")
    features.append("quoting=" + quoting)
    return features


def _short(table):
    """Tables with very long cells are shown abridged in messages."""
    if not isinstance(table, list):
        return table
    return [[cell if not isinstance(cell, str) or len(cell) <= 60 else "%s...<%d characters>" % (cell[:20], len(cell))
             for cell in row] if isinstance(row, list) else row for row in table]


def judge(config, table, status, value):
    if status != "ok":
        features = _features(config, table)
        if features != ["delimiter-equals-escape"]:
            features.append("class=" + type(value).__name__)
        raise core.Violation("round-trip-" + status, features,
                             "config %r table %r: %r" % (config, _short(table), value))
    if value != table:
        raise core.Violation("round-trip-differs", _features(config, table), "config %r: written %r, read back %r" % (
            config, _short(table), _short(value)))


def _execute_sweep(scenario):
    result = core.Result()
    config = list(CONFIGS[scenario["sweep_config"]])
    data_format, refusal = make_format(config, scenario["sweep_config"] % 2 == 1)
    rng = core.stream(scenario["sweep_config"], "sweep-tables")
    count = scenario["tables"]
    verdicts = []
    sigs = []
    if data_format is None:
        result.probe("config-refused")
        result.digest = core.digest(["refused", config])
        result.schedule_sig = ["sweep-refused", config]
        return result
    for number in range(count):
        table = draw_table(rng, config)
        status, value = round_trip(data_format, table, None, "stream", "stream")
        try:
            judge(config, table, status, value)
        except core.Violation:
            scenario["_single"] = {"io": {"regime": "whole"}, "config": config, "table": table, "target": "stream",
                                   "source": "stream", "explicit_skip": scenario["sweep_config"] % 2 == 1}
            raise
        verdicts.append(len(table))
        sigs.append(core.short_hash([config, table]))
    result.weight = count
    result.extra_sigs = sigs
    result.nontrivial = True
    result.ticks = count
    result.digest = core.digest([config, verdicts])
    result.schedule_sig = ["sweep", config]
    return result


def execute(scenario):
    if "sweep_config" in scenario:
        return _execute_sweep(scenario)
    result = core.Result()
    history = core.History()
    config = scenario["config"]
    table = scenario["table"]
    fs = simfs.SimFS(simfs.IoConfig.from_dict(scenario["io"]))
    with simfs.Seams(fs):
        data_format, refusal = make_format(config, scenario.get("explicit_skip", False))
        if scenario.get("explicit_skip"):
            result.probe("skip-initial-space-false-explicit")
        if data_format is None:
            result.probe("config-refused")
            history.add("loader", "refused", lib.error_summary(refusal))
            result.digest = history.digest()
            result.schedule_sig = ["refused", config]
            return result
        via = scenario.get("via", "rowio")
        if via == "validio" and table:
            cid_status, cid = cid_for(config, len(table[0]), scenario.get("explicit_skip", False))
            if cid_status == "exc":
                raise core.Violation("loader-accepts-format-but-cid-does-not", _features(config, table), repr(cid))
            status, value = round_trip_validio(cid, table, fs, scenario["target"], scenario["source"],
                                               scenario.get("one_shot_rows", False), scenario.get("read_limit"))
            if scenario.get("read_limit") is not None:
                result.probe("read-back-with-validation-limit")
            result.probe("via-validating-writer-and-reader")
        else:
            status, value = round_trip(data_format, table, fs, scenario["target"], scenario["source"], scenario.get("preamble"))
            if scenario.get("preamble") and scenario["source"] == "stream":
                result.probe("stream-handed-over-behind-a-preamble")
    history.add("client", "round-trip", {"status": status, "value": value if status == "ok" else lib.error_summary(value)})
    delimiter, quote, escape, quoting, line_delimiter = config
    specials = set()
    for row in table:
        if row == [""]:
            result.probe("single-empty-cell-row")
        for cell in row:
            if cell == quote:
                result.probe("cell-is-only-the-quote-char")
            if cell.endswith(escape) and cell:
                result.probe("escape-char-last-in-cell")
            if delimiter in cell:
                result.probe("delimiter-in-cell")
                specials.add("d")
            if "\r" in cell or "\n" in cell:
                result.probe("line-break-in-cell")
                specials.add("n")
            if "\r\n" in cell and scenario["io"]["regime"] in ("1", "1..3"):
                result.probe("crlf-inside-cell-with-small-chunks")
            if quote in cell:
                specials.add("q")
            if escape in cell:
                specials.add("e")
            if "ü" in cell:
                result.probe("non-ascii-cell")
    result.probe("target:" + scenario["target"])
    result.probe("source:" + scenario["source"])
    result.nontrivial = bool(specials)
    result.schedule_sig = [config, scenario["target"], scenario["source"], scenario["io"]["regime"],
                           [len(row) for row in table], sorted(specials)]
    result.ticks = history.ticks + fs.ticks
    result.digest = history.digest()
    result.trace = {"config": config, "table": table, "status": status}
    judge(config, table, status, value)
    return result


def candidates(scenario):
    if "sweep_config" in scenario:
        if "_single" in scenario:
            yield scenario["_single"]
        return
    for candidate in lib.drop_candidates(scenario, ["table"]):
        yield candidate
    for candidate in lib.io_candidates(scenario):
        yield candidate
    if scenario.get("explicit_skip"):
        yield lib.with_value(scenario, ["explicit_skip"], False)
    if scenario.get("via") == "validio":
        yield lib.with_value(scenario, ["via"], "rowio")
    for key in ("target", "source"):
        if scenario[key] != "stream":
            yield lib.with_value(scenario, [key], "stream")
    for row_index, row in enumerate(scenario["table"]):
        if len(row) > 1:
            for cell_index in range(len(row)):
                candidate = copy.deepcopy(scenario)
                del candidate["table"][row_index][cell_index]
                yield candidate
        for cell_index, cell in enumerate(row):
            for position in range(len(cell)):
                candidate = copy.deepcopy(scenario)
                candidate["table"][row_index][cell_index] = cell[:position] + cell[position + 1:]
                yield candidate
    defaults = [",", '"', '"', "minimal", "lf"]
    for index, value in enumerate(defaults):
        if scenario["config"][index] != value:
            candidate = copy.deepcopy(scenario)
            candidate["config"][index] = value
            yield candidate
