"""C09 — CIDs are accepted iff structurally sound; rejections name the offending row.

The CID is treated as a *stored document written by a peer* and a single-fault campaign is run on it:
(a) meaning-preserving rewrites (comment rows, trailing cells, case changes of row markers / format /
property names, surrounding blanks, reordered properties, ODS column runs, storage as csv / ods / xlsx
under a seeded chunk schedule) must stay accepted with identical fields and checks; (b) exactly one
structural defect from a catalogue, at an applicable row, must be rejected with an InterfaceError that
names that row.  No schedule dimension exists beyond storage and chunking (DESIGN.md: weak fit)."""
import copy
import re

from sim import core, lib, simfs, tabular
from sim.peers import odf, xlsx

ID = "C09"
LEVEL = "fault_enumeration"
QUICK_RUNS = 12000
BATCH = 300
SWEEP_BATCH = 200
SWEEP_EXHAUSTIVE_NOTE = ("bounded sweep: every defect of the catalogue x every applicable row of B base CIDs (B = 8 quick, "
                         "200 thorough), loaded from rows; exhaustive for that sub-space")
RULE_TEXT = (
    "fault enumeration on generated valid CIDs (4 formats, 1-6 fields over all 8 types with examples, 0-3 checks, range "
    "separators ':', '...' or the ellipsis character): seeded scenarios apply 0-4 benign rewrites and at most one defect "
    "from a catalogue of about 50 structural defects, store the CID as rows / csv / ods / xlsx and load it under a chunk "
    "schedule; plus the sweep in sweep_note. Non-trivial: a defect or a rewrite was applied. Distinct: (format, storage, "
    "rewrites, defect, defect row class, field types)."
)
ASSUMPTIONS = [
    "the base CIDs come from a conservative grammar that is sound by construction; that the unperturbed base loads is "
    "checked in every run",
    "a rejection 'names the row' if error.location.line is the defective row or the text contains its (R<n>C<m>) reference",
    "for omissions that can only be noticed at the end (no field at all, no format at all) only the class is required",
    "blanks are added around the row marker, field name, empty mark, type, length and rule - not around property names, "
    "values or examples, where a blank can be meaningful",
]
COMPONENTS = {
    "real": ["cutplace.interface.Cid (read, add_*_row, auto_rows)", "cutplace.data.DataFormat", "cutplace.fields", "cutplace.checks",
             "cutplace.ranges", "cutplace.rowio readers", "csv", "zipfile", "ElementTree", "xlrd"],
    "stub": ["text / ODF / XLSX peers", "SimFS/SimRaw", "defect and rewrite injector"],
}

PROBES_REQUIRED = ["rewrite:" + name for name in ("format-synonym-csv", "comment-rows", "trailing-cells", "marker-case", "format-case",
                                                    "property-name-case", "blanks-around-cells", "reorder-properties",
                                                    "empty-rows", "empty-mark-case")] + [
    "cid-path-handed-to-reader-after-rewrite", "storage:rows", "storage:csv", "storage:ods", "storage:xlsx", "defect:duplicate-field-name", "defect:format-twice",
    "defect:check-before-fields", "defect:fixed-length-is-range", "defect:example-rejected-integer", "defect:no-fields-at-all"]

EXTRA_PROPS = {
    "delimited": [["item delimiter", ";"], ["quote character", "'"], ["escape character", "\\"], ["quoting", "all"],
                  ["allowed characters", "32{sep}255"], ["decimal separator", ","], ["thousands separator", "."]],
    "fixed": [["allowed characters", "32{sep}"], ["decimal separator", "."], ["thousands separator", ","]],
    "ods": [["allowed characters", "{sep}65535"]],
    "excel": [["allowed characters", "32{sep}65535"]],
}


def base_spec(rng):
    fmt = rng.choice(tabular.FORMATS)
    fields = tabular.draw_fields(rng, fmt, rng.randint(1, 6))
    for field in fields:
        if rng.random() < 0.6:
            field["example"] = tabular.FIELD_KINDS[field["type"]][2][0]
            if field["type"] == "Decimal" and fmt == "delimited":
                field["example"] = None
    for field in fields:
        if field["type"] == "Choice" and rng.random() < 0.3:
            field["rule"] = "'red', \"green\""  # choices may be quoted, with either kind of quote
        if field["type"] == "Constant" and rng.random() < 0.3:
            field["rule"] = "'k'"
    if rng.random() < 0.15:
        # a sound CID with limits of 15 digits: the length must be consistent with the rule
        fields.append({"name": "bignumber", "type": "Integer", "rule": "0{sep}999999999999999", "length": "1{sep}15", "width": 15,
                       "example": "999999999999999"})
    if fmt != "fixed" and rng.random() < 0.2:
        # a sound CID whose example fits its field only together with its trailing blank
        fields.append({"name": "padded", "type": "Text", "length": "3", "example": "ab "})
    if len(fields) >= 2 and rng.random() < 0.1:
        # names are case-sensitive: a field may be called like another one in capitals
        fields[1]["name"] = fields[0]["name"].upper()
    if rng.random() < 0.15:
        # soft keywords of Python are ordinary names
        fields[rng.randrange(len(fields))]["name"] = rng.choice(["match", "case", "type"])
    names = [field["name"] for field in fields]
    checks = []
    for index in range(rng.choice([0, 1, 1, 2, 3])):
        if rng.random() < 0.5:
            checks.append([rng.choice(["unique %d", "100%% unique %d", "%%s is unique (%d)"]) % index, "IsUnique",
                           ", ".join(rng.sample(names, rng.randint(1, min(2, len(names)))))])
        else:
            checks.append(["count %d" % index, "DistinctCount", "%s %s %d" % (rng.choice(names), rng.choice(["<=", ">", "=="]), rng.randint(1, 5))])
    sep = rng.choice([":", "...", "…"])
    spec = {"format": fmt, "header": rng.choice([0, 1, 2]), "sep": sep, "fields": fields, "checks": checks,
            "props": [[name, value.format(sep=sep)] for name, value in rng.sample(EXTRA_PROPS[fmt], rng.randint(0, len(EXTRA_PROPS[fmt])))]}
    if fmt in ("ods", "excel") and rng.random() < 0.5:
        spec["sheet"] = rng.randint(1, 3)
    for field in spec["fields"]:
        if field.get("example") is None:
            field.pop("example", None)
    if any(prop[0] == "decimal separator" for prop in spec["props"]) != any(prop[0] == "thousands separator" for prop in spec["props"]):
        spec["props"] = [prop for prop in spec["props"] if prop[0] not in ("decimal separator", "thousands separator")]
    if fmt == "delimited" and any(prop[0] == "decimal separator" for prop in spec["props"]):
        for field in spec["fields"]:
            if field["type"] == "Decimal":
                field["rule"] = "0{sep}9,99".replace(",", ".")  # limits are always written with '.'
    return spec


def base_rows(spec):
    rows = tabular.cid_rows(spec)
    return rows


# ---- defect catalogue ------------------------------------------------------------------------------
def _indices(rows, marker):
    return [index for index, row in enumerate(rows) if row and row[0].strip().lower() == marker]


def _storable(rows, storage):
    """A workbook cannot hold a row without cells in front of other rows other than as a row of empty cells."""
    return rows


def _field_rows_of_type(rows, type_name):
    return [index for index in _indices(rows, "f") if rows[index][5] == type_name]


def _set(column, value):
    def apply(rows, index):
        rows[index] = (rows[index] + [""] * 7)[:max(7, len(rows[index]))]
        rows[index][column] = value
        return index
    return apply


def _fixed_only(rows):
    return rows[0][2] == "fixed"


DEFECTS = {}


def defect(name, marker=None, only=None, type_name=None):
    def register(function):
        DEFECTS[name] = {"apply": function, "marker": marker, "only": only, "type": type_name}
        return function
    return register


@defect("unknown-row-marker", "any")
def _d1(rows, index):
    rows[index][0] = "x"
    return index


@defect("format-row-missing", "format")
def _d2(rows, index):
    del rows[0]
    return 0  # whatever is first now (a property row or a field) cannot be processed without a format


@defect("format-not-first", "d-not-first")
def _d3(rows, index):
    rows[0], rows[index] = rows[index], rows[0]
    return 0


@defect("format-twice", "d")
def _d4(rows, index):
    rows.insert(index + 1 if index else 1, ["d", "format", rows[0][2]])
    return index + 1 if index else 1


@defect("unknown-format", "format")
def _d5(rows, index):
    rows[0][2] = "nonsense"
    return 0


@defect("field-before-format", "f")
def _d7(rows, index):
    row = rows.pop(index)
    rows.insert(0, row)
    return 0


@defect("duplicate-field-name", "f")
def _d8(rows, index):
    first = _indices(rows, "f")[0]
    position = _indices(rows, "f")[-1] + 1
    rows.insert(position, list(rows[first]))
    return position


for _name, _value in (("keyword-field-name", "class"), ("non-ascii-field-name", "straße"), ("digit-first-field-name", "1abc"),
                      ("blank-inside-field-name", "a b"), ("empty-field-name", ""), ("dash-in-field-name", "a-b"),
                      ("underscore-first-field-name", "_a"), ("superscript-digit-in-field-name", "a²"),
                      ("arabic-indic-digit-in-field-name", "ab١c"), ("fullwidth-digit-in-field-name", "a_１")):
    defect(_name, "f")(_set(1, _value))
defect("bad-empty-mark", "f")(_set(3, "Y"))
defect("empty-mark-word", "f")(_set(3, "yes"))
defect("unknown-type", "f")(_set(5, "Nope"))
defect("type-with-blank-inside", "f")(_set(5, "Inte ger"))
defect("type-is-number", "f")(_set(5, "123"))
defect("length-not-a-range", "f")(_set(4, "abc"))
defect("length-three-limits", "f")(_set(4, "1...2...3"))
defect("length-descending", "f")(_set(4, "5...1"))
defect("length-descending-to-zero", "f", only=lambda rows: not _fixed_only(rows))(_set(4, "5...0"))
defect("length-ellipsis-only", "f")(_set(4, "..."))
# values the tokenizer behind ranges and rules refuses: still a defect of that row
defect("length-unterminated-quote", "f")(_set(4, '"3'))
defect("length-unbalanced-parenthesis", "f")(_set(4, "(1...5"))
defect("integer-rule-bad-number-literal", "f", type_name="Integer")(_set(6, "0x...5"))
defect("integer-rule-double-underscore", "f", type_name="Integer")(_set(6, "1__0"))
defect("choice-unterminated-quote", "f", type_name="Choice")(_set(6, "'red, green"))
defect("decimal-rule-unbalanced-parenthesis", "f", type_name="Decimal")(_set(6, "1.5...(9"))
defect("length-overlapping-items", "f")(_set(4, "1...3, 2...4"))
defect("length-negative", "f", only=lambda rows: not _fixed_only(rows))(_set(4, "-2...3"))
defect("fixed-without-length", "f", only=_fixed_only)(_set(4, ""))
defect("fixed-length-is-range", "f", only=_fixed_only)(_set(4, "1...3"))
defect("fixed-length-zero", "f", only=_fixed_only)(_set(4, "0"))
defect("fixed-length-open", "f", only=_fixed_only)(_set(4, "2..."))
defect("fixed-length-two-parts-one-open", "f", only=_fixed_only)(_set(4, "2, 3..."))
defect("fixed-length-open-part-first", "f", only=_fixed_only)(_set(4, "...1, 2"))
defect("integer-rule-symbol", "f", type_name="Integer")(_set(6, "abc"))
defect("integer-rule-descending", "f", type_name="Integer")(_set(6, "10...1"))
defect("integer-rule-descending-to-zero", "f", type_name="Integer")(_set(6, "10...0"))
defect("decimal-rule-descending-to-zero", "f", type_name="Decimal")(_set(6, "1.5...0"))
defect("integer-rule-overlap", "f", type_name="Integer")(_set(6, "1...5, 5...9"))
# two parts of a range that share a value, in every arrangement of open ends, containment and order
for _name, _value in (("both-open-below", "...5, ...10"), ("both-open-below-reversed", "...10, ...5"), ("both-open-above", "5..., 10..."),
                      ("both-open-above-reversed", "10..., 5..."), ("contained", "1...10, 5...6"), ("containing", "5...6, 1...10"),
                      ("single-inside", "3, 1...5"), ("single-inside-reversed", "1...5, 3"), ("open-ends-meet", "...5, 3..."),
                      ("open-ends-meet-reversed", "3..., ...5")):
    defect("integer-rule-overlap-" + _name, "f", type_name="Integer")(_set(6, _value))
    defect("length-overlap-" + _name, "f", only=lambda rows: not _fixed_only(rows))(_set(4, _value))
defect("decimal-rule-not-a-number", "f", type_name="Decimal")(_set(6, "abc"))
defect("decimal-rule-descending", "f", type_name="Decimal")(_set(6, "9.5...1.5"))


@defect("choice-without-choices", "f", type_name="Choice")
def _d16(rows, index):
    rows[index] = (rows[index] + [""] * 7)[:7]
    rows[index][3] = ""  # a Choice field that may be empty needs no choice at all
    rows[index][6] = ""
    return index


defect("choice-empty-choice", "f", type_name="Choice")(_set(6, "red,,green"))
defect("choice-trailing-comma", "f", type_name="Choice")(_set(6, "red,"))
defect("choice-missing-comma", "f", type_name="Choice")(_set(6, "red green"))
defect("constant-two-tokens", "f", type_name="Constant")(_set(6, "k j"))
defect("regex-does-not-compile", "f", type_name="RegEx")(_set(6, "a+b("))
defect("example-rejected-integer", "f", type_name="Integer")(_set(2, "abc"))
defect("example-rejected-choice", "f", type_name="Choice")(_set(2, "blue"))
# outside fixed-width data a blank is a character like any other: " red" is not one of the choices
defect("example-rejected-choice-leading-blank", "f", type_name="Choice", only=lambda rows: not _fixed_only(rows))(_set(2, " red"))
defect("example-too-long-for-its-length", "f", type_name="Text")(_set(2, "abcd"))
defect("example-rejected-datetime", "f", type_name="DateTime")(_set(2, "31.02.2003"))
defect("example-rejected-regex", "f", type_name="RegEx")(_set(2, "zzz"))


@defect("check-before-fields", "c")
def _d19(rows, index):
    row = rows.pop(index)
    position = _indices(rows, "f")[0]
    rows.insert(position, row)
    return position


defect("empty-check-description", "c")(_set(1, ""))
defect("unknown-check-type", "c")(_set(2, "IsNope"))
defect("check-type-empty", "c")(_set(2, ""))


@defect("duplicate-check-description", "c")
def _d21(rows, index):
    rows.append(list(rows[index]))
    return len(rows) - 1


@defect("check-rule-unknown-field", "c")
def _d23(rows, index):
    rows[index] = (rows[index] + [""] * 4)[:4]
    rows[index][3] = "nope" if rows[index][2] == "IsUnique" else "nope > 1"
    return index


@defect("check-rule-empty", "c")
def _d24(rows, index):
    rows[index] = (rows[index] + [""] * 4)[:4]
    rows[index][3] = ""
    return index


@defect("check-rule-empty-rule-like-cell-behind", "c")
def _d24b(rows, index):
    # the rule column is empty; what sits in the cells behind it is a comment, however much it looks like a rule
    rows[index] = (rows[index] + [""] * 4)[:4]
    rows[index] = rows[index][:3] + ["", rows[index][3]]
    return index


@defect("isunique-field-twice", "c-IsUnique")
def _d25(rows, index):
    name = rows[index][3].split(",")[0].strip()
    rows[index][3] = "%s, %s" % (name, name)
    return index


@defect("isunique-missing-comma", "c-IsUnique")
def _d26(rows, index):
    name = rows[index][3].split(",")[0].strip()
    rows[index][3] = "%s %s" % (name, name)
    return index


@defect("distinctcount-broken-expression", "c-DistinctCount")
def _d28(rows, index):
    rows[index][3] = rows[index][3].split()[0] + " >"
    return index


@defect("distinctcount-attribute-of-count", "c-DistinctCount")
def _d31(rows, index):
    rows[index][3] = rows[index][3].split()[0] + ".count < 5"  # the count is a number, it has no attribute
    return index


@defect("distinctcount-index-out-of-range", "c-DistinctCount")
def _d32(rows, index):
    rows[index][3] = rows[index][3].split()[0] + " < [10, 20][2]"
    return index


@defect("distinctcount-unknown-key", "c-DistinctCount")
def _d33(rows, index):
    rows[index][3] = rows[index][3].split()[0] + " < {1: 2}[3]"
    return index


@defect("isunique-rule-unterminated-quote", "c-IsUnique")
def _d34(rows, index):
    rows[index][3] = "'" + rows[index][3]
    return index


@defect("distinctcount-rule-unbalanced-parenthesis", "c-DistinctCount")
def _d35(rows, index):
    rows[index][3] = rows[index][3].split()[0] + " < (3"
    return index


@defect("distinctcount-undeclared-name-behind-and", "c-DistinctCount")
def _d36(rows, index):
    # the rule is tried with a count of 0: `and` never gets to evaluate the name that is no field
    rows[index][3] = rows[index][3].split()[0] + " >= 1 and nosuchfield < 4"
    return index


@defect("distinctcount-calls-exit", "c-DistinctCount")
def _d37(rows, index):
    rows[index][3] = rows[index][3].split()[0] + " < exit()"
    return index


defect("type-unterminated-quote", "f")(_set(5, "'Integer"))
defect("type-abstract", "f")(_set(5, "Abstract"))  # the base class of the field formats is no type
defect("check-type-abstract", "c")(_set(2, "Abstract"))
defect("length-part-contains-the-other", "f", only=lambda rows: not _fixed_only(rows))(_set(4, "5...6, 1...10"))


@defect("no-fields-at-all", "format")
def _d29(rows, index):
    rows[:] = [row for row in rows if row[0].strip().lower() not in ("f", "c")]
    return None


@defect("no-rows-at-all", "format")
def _d30(rows, index):
    rows[:] = [["", "only a comment"]]
    return None


DEFECT_NAMES = sorted(DEFECTS)


def applicable_rows(rows, name):
    info = DEFECTS[name]
    if info["only"] is not None and not info["only"](rows):
        return []
    marker = info["marker"]
    if marker == "any":
        return list(range(len(rows)))
    if marker == "format":
        return [0]
    if marker == "d":
        return _indices(rows, "d")
    if marker == "d-not-first":
        return [index for index in _indices(rows, "d") if index > 0]
    if marker == "f":
        indices = _indices(rows, "f")
        if info["type"]:
            indices = [index for index in indices if rows[index][5] == info["type"]]
        if name == "field-before-format":
            indices = indices[:1]
        return indices
    if marker == "c":
        return _indices(rows, "c")
    if marker.startswith("c-"):
        return [index for index in _indices(rows, "c") if rows[index][2] == marker[2:]]
    return []


# ---- benign rewrites -------------------------------------------------------------------------------
REWRITES = ["format-synonym-csv", "comment-rows", "trailing-cells", "marker-case", "format-case", "property-name-case", "blanks-around-cells",
            "reorder-properties", "empty-rows", "empty-mark-case"]


def apply_rewrites(rows, names, rng):
    """Rewrites ``rows`` in place (row objects keep their identity, so a marked row can be found again)."""
    for name in names:
        if name == "comment-rows":
            for _ in range(rng.randint(1, 3)):
                rows.insert(rng.randint(0, len(rows)), ["", rng.choice(["a comment", "f", "d format nonsense", "", "see: a;b;c;d;e;f;g;h;i;j;k;l;m;n;o;p;q;r;s;t;u;v;w;x;y;z" + ";" * 60,
                                                                          "tab\tseparated\tremark" + "\t" * 80]), "x"])
        elif name == "empty-rows":
            # a row with one empty cell and a row without any cell (a blank line in a CSV file)
            rows.insert(rng.randint(0, len(rows)), [""])
            rows.insert(rng.randint(0, len(rows)), [])
        elif name == "trailing-cells":
            for row in rows:
                if row and row[0].strip() and rng.random() < 0.6:
                    while len(row) < 7:
                        row.append("")
                    row.extend([rng.choice(["see ticket 17", "x", "class"])] * rng.randint(1, 2))
        elif name == "marker-case":
            for row in rows:
                if row and row[0].strip():
                    row[0] = row[0].upper() if rng.random() < 0.7 else row[0]
        elif name == "format-synonym-csv":
            for row in rows:
                if row and row[0].strip().lower() == "d" and row[1].strip().lower() == "format" and row[2].lower() == "delimited":
                    row[2] = "csv"  # documented synonym
        elif name == "format-case":
            for row in rows:
                if row and row[0].strip().lower() == "d" and row[1].strip().lower() == "format":
                    row[2] = rng.choice([row[2].upper(), row[2].capitalize()])
        elif name == "property-name-case":
            for row in rows:
                if row and row[0].strip().lower() == "d":
                    row[1] = rng.choice([row[1].upper(), row[1].title(), row[1].replace(" ", "_")])
        elif name == "empty-mark-case":
            for row in rows:
                if row and row[0].strip().lower() == "f" and len(row) > 3 and row[3] == "X":
                    row[3] = "x"
        elif name == "blanks-around-cells":
            for row in rows:
                if not row or not row[0].strip():
                    continue
                kind = row[0].strip().lower()
                row[0] = " %s " % row[0]
                if kind == "f":
                    for column in (1, 3, 4, 5, 6):
                        if column < len(row) and rng.random() < 0.6:
                            row[column] = " %s  " % row[column] if row[column] else row[column]
        elif name == "reorder-properties":
            indices = [index for index, row in enumerate(rows) if row and row[0].strip().lower() == "d"][1:]
            block = [rows[index] for index in indices]
            rng.shuffle(block)
            for index, row in zip(indices, block):
                rows[index] = row
    return rows


# ---- sweep --------------------------------------------------------------------------------------------
_SWEEP = {}


def _sweep_cases(tier):
    if tier not in _SWEEP:
        cases = []
        for number in range(8 if tier == "quick" else 200):
            rng = core.stream(number, "c09-base")
            spec = base_spec(rng)
            rows = base_rows(spec)
            for name in DEFECT_NAMES:
                for index in applicable_rows(rows, name):
                    cases.append((number, name, index))
        _SWEEP[tier] = cases
    return _SWEEP[tier]


def sweep_size(tier):
    return len(_sweep_cases(tier))


def sweep_slice(tier, start, count):
    for number, name, index in _sweep_cases(tier)[start:start + count]:
        spec = base_spec(core.stream(number, "c09-base"))
        yield {"property": ID, "sweep": True, "io": {"regime": "whole"}, "spec": spec, "rewrites": [], "rewrite_seed": 0,
               "defect": {"name": name, "row": index}, "storage": "rows"}


def generate(seed, tier):
    rng = core.stream(seed, "gen")
    swarm = core.stream(seed, "swarm")
    fault_rng = core.stream(seed, "fault")
    spec = base_spec(rng)
    rows = base_rows(spec)
    rewrites = sorted(swarm.sample(REWRITES, swarm.choice([0, 1, 2, 2, 3, 4])))
    the_defect = None
    if swarm.random() < 0.6:
        candidates_ = [(name, applicable_rows(rows, name)) for name in DEFECT_NAMES]
        candidates_ = [(name, indices) for name, indices in candidates_ if indices]
        name, indices = fault_rng.choice(candidates_)
        the_defect = {"name": name, "row": fault_rng.choice(indices)}
    return {"io": simfs.IoConfig.draw(swarm), "spec": spec, "rewrites": rewrites, "rewrite_seed": swarm.randrange(1 << 30),
            "defect": the_defect, "storage": swarm.choice(["rows", "csv", "ods", "xlsx"]),
            "via_reader_after_base": swarm.random() < 0.25,
            "ods_features": sorted(swarm.sample(["colruns", "rowruns", "stored", "spans", "trailing-empty-run"], swarm.randint(0, 2)))}


def _summary(cid):
    return {
        "format": str(cid.data_format),
        "fields": [[field.field_name, type(field).__name__, field.is_allowed_to_be_empty, str(field.length), field.rule.strip(),
                    field.example] for field in cid.field_formats],
        "checks": [[name, type(cid.check_map[name]).__name__, cid.check_map[name].rule] for name in cid.check_names],
    }


def _load(fs, rows, storage, features, via_reader_after=None):
    from cutplace import interface, validio

    if storage == "rows":
        return lib.call(lib.load_cid, rows, "cid")
    path = {"csv": "cid.csv", "ods": "cid.ods", "xlsx": "cid.xlsx"}[storage]
    if via_reader_after is not None:
        # the CID is handed to a Reader as a path; a moment ago the same path held the sound base CID and was used
        _store(fs, path, storage, via_reader_after, features)
        lib.call(validio.Reader, path, "no-data.csv")
        _store(fs, path, storage, rows, features)
        status, value = lib.call(validio.Reader, path, "no-data.csv")
        return status, (value.cid if status == "ok" else value)
    _store(fs, path, storage, rows, features)
    return lib.call(interface.Cid, path)


def _store(fs, path, storage, rows, features):
    if storage == "csv":
        fs.store(path, lib.render_delimited(rows, ",", '"', "\n").encode("utf-8"))
    elif storage == "ods":
        fs.store(path, odf.encode([rows], features)[0])
    else:
        fs.store(path, xlsx.encode([xlsx.text_table(rows)]))


def execute(scenario):
    from cutplace import errors

    result = core.Result()
    history = core.History()
    spec = scenario["spec"]
    base = base_rows(spec)
    fs = simfs.SimFS(simfs.IoConfig.from_dict(scenario["io"]))
    storage = scenario.get("storage", "rows")
    features = set(scenario.get("ods_features") or ())
    the_defect = scenario.get("defect")
    with simfs.Seams(fs):
        status, reference = lib.call(lib.load_cid, base, "base")
        if status == "exc":
            raise core.Violation("valid-cid-rejected", ["format=" + spec["format"]] + sorted({"type=" + field["type"] for field in spec["fields"]}),
                                 "base CID %r: %r" % (base, lib.error_summary(reference)))
        wanted = _summary(reference)
        rows = [list(row) for row in base]
        defect_row = None
        marked = None
        if the_defect:
            applicable = applicable_rows(rows, the_defect["name"])
            if the_defect["row"] in applicable:
                defect_row = DEFECTS[the_defect["name"]]["apply"](rows, the_defect["row"])
                marked = rows[defect_row] if defect_row is not None else None
            else:
                the_defect = None
        rewritten = rows
        apply_rewrites(rewritten, scenario.get("rewrites", []), core.stream(scenario.get("rewrite_seed", 0), "rewrite"))
        if marked is not None:
            defect_row = next(index for index, row in enumerate(rewritten) if row is marked)
        via_reader = scenario.get("via_reader_after_base") and storage != "rows"
        if via_reader:
            result.probe("cid-path-handed-to-reader-after-rewrite")
        status, value = _load(fs, rewritten, storage, features, base if via_reader else None)
    history.add("client", "load", {"rows": rewritten, "storage": storage,
                                   "outcome": _summary(value) if status == "ok" else lib.error_summary(value)})
    for name in scenario.get("rewrites", []):
        result.probe("rewrite:" + name)
    result.probe("storage:" + storage)
    if the_defect:
        result.probe("defect:" + the_defect["name"])
        result.fault(the_defect["name"])
    result.nontrivial = bool(the_defect or scenario.get("rewrites"))
    result.schedule_sig = [spec["format"], storage, scenario.get("rewrites"), the_defect["name"] if the_defect else None,
                           sorted({field["type"] for field in spec["fields"]}),
                           len(spec["checks"]), scenario["io"].get("regime")]
    result.ticks = history.ticks + fs.ticks
    result.digest = history.digest()
    result.trace = {"rows": rewritten[:12], "storage": storage, "defect": the_defect,
                    "outcome": "accepted" if status == "ok" else lib.error_summary(value)}
    features_out = ["storage=" + storage] if storage != "rows" else []
    if the_defect is None:
        more = features_out + ["rewrite=" + name for name in scenario.get("rewrites", [])]
        if status == "exc":
            raise core.Violation("benign-rewrite-rejected", more + ["class=" + type(value).__name__],
                                 "rows %r: %r" % (rewritten, lib.error_summary(value)))
        got = _summary(value)
        if got != wanted:
            part = [key for key in ("format", "fields", "checks") if got[key] != wanted[key]]
            raise core.Violation("benign-rewrite-changed-the-cid", more + ["part=" + key for key in part],
                                 "wanted %r, got %r" % (wanted, got))
        return result
    more = features_out + ["defect=" + the_defect["name"]]
    if status == "ok":
        raise core.Violation("defective-cid-accepted", more, "rows %r" % (rewritten,))
    if not isinstance(value, errors.InterfaceError):
        raise core.Violation("defective-cid-other-exception", more + ["class=" + type(value).__name__], repr(value))
    if defect_row is not None:
        location = getattr(value, "location", None)
        named = location is not None and hasattr(location, "line") and location.line == defect_row
        if not named:
            references = [int(number) for number in re.findall(r"\(R(\d+)C\d+\)", str(value))]
            named = (defect_row + 1) in references
        if not named:
            raise core.Violation("rejection-does-not-name-the-row", more,
                                 "defect in row %d (0-based) of %r: %s" % (defect_row, rewritten, value))
    return result


def _find_row(rows, marked):
    for index, row in enumerate(rows):
        if [cell.strip().lower() for cell in row[: len(marked)]] == [cell.strip().lower() for cell in marked]:
            return index
    return None


def candidates(scenario):
    if scenario.get("sweep"):
        return
    for index in range(len(scenario.get("rewrites", []))):
        yield lib.with_value(scenario, ["rewrites"], scenario["rewrites"][:index] + scenario["rewrites"][index + 1:])
    if scenario.get("via_reader_after_base"):
        yield lib.with_value(scenario, ["via_reader_after_base"], False)
    if scenario.get("storage") != "rows":
        yield lib.with_value(scenario, ["storage"], "rows")
    for candidate in lib.io_candidates(scenario):
        yield candidate
    if scenario.get("ods_features"):
        yield lib.with_value(scenario, ["ods_features"], [])
    spec = scenario["spec"]
    if not scenario.get("defect"):
        for candidate in lib.drop_candidates(scenario, ["spec", "checks"]):
            yield candidate
        for candidate in lib.drop_candidates(scenario, ["spec", "props"]):
            yield candidate
        fields = spec["fields"]
        if len(fields) > 1:
            for index in range(len(fields)):
                name = fields[index]["name"]
                if any(name in check[2] for check in spec["checks"]):
                    continue
                candidate = copy.deepcopy(scenario)
                del candidate["spec"]["fields"][index]
                yield candidate
        if spec.get("header"):
            yield lib.with_value(scenario, ["spec", "header"], 0)
        if spec.get("sep") != ":":
            yield lib.with_value(scenario, ["spec", "sep"], ":")
