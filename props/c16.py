"""C16 — Excel cells render as documented text and the requested sheet is read.

Pipeline: independent XLSX peer (sim/peers/xlsx.py) -> simulated storage -> real xlrd ->
``rowio.excel_rows`` (directly, or through ``Reader`` with a CID whose Sheet property selects the sheet),
and ``rowio.XlsxRowWriter`` (real xlsxwriter) -> simulated storage -> ``excel_rows``.  The simulator's
contribution is the storage pipeline and the chunked reads; the reach of this check comes mostly from
the workload (DESIGN.md says so)."""
import copy
import datetime

from sim import core, lib, simfs, tabular
from sim.peers import xlsx

ID = "C16"
LEVEL = "exploration"
QUICK_RUNS = 6000
BATCH = 150
RULE_TEXT = (
    "seeded workbooks of 1-3 sheets (0-5 rows x 0-5 cells, ragged, gaps) over the cell kinds inline string, shared "
    "string, integer up to 2^53, finite float written with repr(), boolean, date-time 1900-03-01..9999-12-31, date, time "
    "of day; sheet k requested directly or through the CID's Sheet property; plus string tables written by "
    "XlsxRowWriter (write_row / write_rows) and read back. Non-trivial: the requested sheet has >= 1 non-string cell or "
    "the writer wrote >= 1 non-empty cell. Distinct: (producer, sheet count, k, via, per-row cell kinds)."
)
ASSUMPTIONS = [
    "a number x renders as repr(float(x)) with a trailing '.0' removed (the shortest text denoting the value)",
    "a workbook cannot tell an empty text cell from no cell: rows are padded (or cut) to the right-most non-empty column "
    "and the sheet ends with its last row holding a non-empty cell (peer-produced workbooks); workbooks written by "
    "XlsxRowWriter keep empty strings as cells, there only the padding of every row to the sheet width applies",
    "serials are whole seconds, some with a fraction below half a second added (clock timestamps): the documented "
    "rendering shows the nearest whole second",
]
COMPONENTS = {
    "real": ["cutplace.rowio.excel_rows/_excel_cell_value/XlsxRowWriter", "cutplace.validio.Reader", "xlrd 1.2.0",
             "xlsxwriter (in_memory forced by the seam)", "zipfile"],
    "stub": ["XLSX peer (encoder)", "SimFS/SimRaw"],
}
PROBES_REQUIRED = ["hidden-sheet-in-front-of-the-requested-one", "write_row-and-write_rows-mixed", "fractional-second", "date-system-1904", "other-date-system-read-first", "kind:s", "kind:ss", "kind:n-int", "kind:n-float", "kind:b", "kind:d", "kind:t", "kind:date", "gap",
                   "sheet:2", "sheet:3", "missing-sheet", "via:reader", "via:direct", "writer-round-trip", "write_rows",
                   "ragged-rows", "big-integer"]
EPOCHS = {False: datetime.datetime(1899, 12, 30), True: datetime.datetime(1904, 1, 1)}


def _serial(moment, date1904=False, fraction=0.0):
    """Serial of ``moment`` plus ``fraction`` seconds (|fraction| < 0.5: it still renders as that whole second)."""
    delta = moment - EPOCHS[date1904]
    return repr(delta.days + (delta.seconds + fraction) / 86400.0)


def draw_cell(rng):
    kind = rng.choice(["s", "s", "ss", "n-int", "n-float", "b", "d", "t", "date", "gap"])
    if kind == "s" or kind == "ss":
        return [kind, rng.choice(["a", "text", "1.0", "007", " x ", "ü", "TRUE", "2020-01-01", "=1+1", "release 2.0",
                                  # text that is no NFC / looks like an OOXML character escape: a string is returned verbatim
                                  "e\u0301", "\u212b", "col_x0041_name", "_x005F_"])]
    if kind == "n-int":
        value = rng.choice([0, 1, -1, 7, 42, 1000, 2 ** 31, 2 ** 53, -(2 ** 53), 10 ** 15, rng.randrange(-10 ** 9, 10 ** 9),
                            rng.randrange(2 ** 52, 2 ** 53)])
        return ["n", repr(value) if rng.random() < 0.5 else repr(float(value))]
    if kind == "n-float":
        value = rng.choice([0.5, -0.25, 1.5, 3.14159, 1e-7, 1.0000000000000002, 123456789.125, 1e16, 1.7976931348623157e308,
                            rng.random() * 10 ** rng.randint(-5, 12), 0.1 + 0.2])
        return ["n", repr(float(value))]
    if kind == "b":
        return ["b", rng.random() < 0.5]
    # dates: 1904-01-02 .. 9999-12-31 so that both date systems can store them; every 64th draw comes from the
    # 1900-03-01 .. 1904-01-01 stretch that only the 1900 system can hold (used with that system only)
    if kind == "d":
        # (every 16th draw: the first weeks of 1904, whose serial numbers in the 1904 system are as small as the ones
        # the 1900 system cannot tell apart)
        days = rng.randrange(0, 59) if rng.random() < 1 / 16 else rng.randrange(0, 2957000)
        moment = datetime.datetime(1904, 1, 2) + datetime.timedelta(days=days, seconds=rng.randrange(1, 86400))
        # timestamps taken from a clock carry fractions of a second; the text still shows whole seconds
        return ["d", moment.strftime("%Y-%m-%d %H:%M:%S"), rng.choice([0.0, 0.0, 0.25, 0.3, -0.3])]
    if kind == "date":
        moment = datetime.datetime(1904, 1, 2) + datetime.timedelta(
            days=rng.randrange(0, 59) if rng.random() < 1 / 16 else rng.randrange(0, 2957000))
        if rng.random() < 0.15:
            moment = datetime.datetime(1900, 3, 1) + datetime.timedelta(days=rng.randrange(0, 1400))
        return ["date", moment.strftime("%Y-%m-%d %H:%M:%S")]
    if kind == "t":
        if rng.random() < 0.05:
            return ["t", "00:00:00", 0.0]  # midnight: the serial number is exactly 0
        seconds = rng.randrange(1, 86400)
        return ["t", str(datetime.time(seconds // 3600, seconds // 60 % 60, seconds % 60)), rng.choice([0.0, 0.0, 0.25, -0.3])]
    return None


def peer_cell(cell, date1904):
    if cell is None:
        return None
    kind = cell[0]
    fraction = cell[2] if len(cell) > 2 else 0.0
    if kind in ("d", "date"):
        return (kind, _serial(datetime.datetime.strptime(cell[1], "%Y-%m-%d %H:%M:%S"), date1904,
                              fraction if kind == "d" else 0.0))
    if kind == "t":
        hours, minutes, seconds = [int(part) for part in cell[1].split(":")]
        return ("t", repr((hours * 3600 + minutes * 60 + seconds + fraction) / 86400.0))
    return tuple(cell[:2])


def generate(seed, tier):
    rng = core.stream(seed, "gen")
    swarm = core.stream(seed, "swarm")
    if swarm.random() < 0.25:
        alphabet = swarm.choice([["a", "b", ""], ["a b", " a", "x\ty", "l1\nl2", "", "l1\r\nl2", "\r"], ["<&>", "ü€", "=1+1", "'q", "<r>x</r>", "<t>y</t>", "@home", "+1", "-x"], ["1", "2.50", "TRUE", "01067", "00", "\u0663\u0664", "007"], ["x" * 32767, "x" * 32766, "ab"]])
        table = [[rng.choice(alphabet) for _ in range(rng.randint(1, 5))] for _ in range(rng.randint(0, 5))]
        # how the rows reach the writer: one by one, as one batch, or as any mix of single rows and batches
        batches = None
        style = swarm.choice(["row", "rows", "mixed", "mixed"])
        if style == "mixed":
            batches, remaining = [], len(table)
            while remaining:
                size = rng.randint(1, min(3, remaining))
                batches.append([size, "row" if size == 1 and rng.random() < 0.7 else "rows"])
                remaining -= size
        return {"io": simfs.IoConfig.draw(swarm), "producer": "writer", "table": table,
                "use_write_rows": style == "rows", "batches": batches, "rows_as_iterator": swarm.random() < 0.5}
    sheets = []
    for _ in range(swarm.randint(1, 3)):
        sheets.append([[draw_cell(rng) for _ in range(rng.randint(0, 5))] for _ in range(rng.randint(0, 5))])
    sheet = swarm.randint(1, 3)
    date1904 = swarm.random() < 0.3
    if date1904:
        # the 1904 date system cannot hold anything before 1904-01-01
        for table in sheets:
            for row in table:
                for index, cell in enumerate(row):
                    if cell and cell[0] == "date" and cell[1] < "1904-01-02":
                        row[index] = ["date", "2000-02-29 00:00:00"]
    return {"io": simfs.IoConfig.draw(swarm), "producer": "peer", "sheets": sheets, "sheet": sheet,
            "via": swarm.choice(["direct", "reader"]), "stored": swarm.random() < 0.3, "date1904": date1904,
            "other_date_system_first": swarm.random() < 0.3, "other_at_same_path": swarm.random() < 0.5,
            # sheets the user interface does not show are sheets all the same: sheet k counts every sheet
            "hidden": [[index, swarm.choice(["hidden", "veryHidden"])] for index in range(len(sheets)) if swarm.random() < 0.2]}


def expected_text(cell):
    if cell is None:
        return ""
    kind = cell[0]
    if kind in ("s", "ss"):
        return cell[1]
    if kind == "n":
        text = repr(float(cell[1]))
        return text[:-2] if text.endswith(".0") else text
    if kind == "b":
        return "1" if cell[1] else "0"
    return cell[1]


def execute(scenario):
    from cutplace import errors, rowio

    result = core.Result()
    history = core.History()
    fs = simfs.SimFS(simfs.IoConfig.from_dict(scenario["io"]))
    spec_excel = {"format": "excel"}
    if scenario["producer"] == "writer":
        table = scenario["table"]
        with simfs.Seams(fs):
            def write():
                given = [list(row) for row in table]
                writer = rowio.XlsxRowWriter("out.xlsx")
                if scenario.get("batches"):
                    position = 0
                    for size, how in scenario["batches"]:
                        batch = given[position:position + size]
                        position += size
                        if how == "row" and len(batch) == 1:
                            writer.write_row(batch[0])
                        elif batch:
                            writer.write_rows(batch)
                    for row in given[position:]:
                        writer.write_row(row)
                elif scenario.get("use_write_rows"):
                    # any iterable of rows will do, also one that can be iterated only once
                    writer.write_rows(iter(given) if scenario.get("rows_as_iterator") else given)
                else:
                    for row in given:
                        writer.write_row(row)
                writer.close()
                lib.check_rows_untouched(given, table)

            status, value = lib.call(write)
            if status == "exc":
                raise core.Violation("xlsx-writer-failed", ["class=" + type(value).__name__] + (
                    ["write_rows"] if scenario.get("use_write_rows") else []), repr(value))
            status, value = lib.call(lambda: lib.collect_rows(rowio.excel_rows("out.xlsx")))
        history.add("client", "writer-round-trip", {"status": status, "value": value if status == "ok" else lib.error_summary(value)})
        # xlsxwriter stores empty strings as (shared) string cells, so they stay cells: only the padding
        # of every row to the sheet's width applies
        width = max([len(row) for row in table] or [0])
        wanted = [list(row) + [""] * (width - len(row)) for row in table]
        result.probe("writer-round-trip")
        if scenario.get("use_write_rows"):
            result.probe("write_rows")
        if scenario.get("batches") and len({how for _, how in scenario["batches"]}) > 1:
            result.probe("write_row-and-write_rows-mixed")
        result.nontrivial = any(cell for row in table for cell in row)
        result.schedule_sig = ["writer", scenario.get("use_write_rows"), scenario.get("batches"), [len(row) for row in table]]
        result.ticks = history.ticks + fs.ticks
        result.digest = history.digest()
        result.trace = {"written": table, "read": value if status == "ok" else lib.error_summary(value)}
        if status == "exc":
            raise core.Violation("written-workbook-unreadable", ["class=" + type(value).__name__], repr(value))
        if value != wanted:
            culprits = []
            if any(cell.startswith("<r>") and cell.endswith("</r>") for row in table for cell in row):
                # xlsxwriter takes a string of this shape for ready-made rich text XML and stores it unescaped
                culprits.append("cell-looks-like-rich-text-xml")
            raise core.Violation("writer-round-trip-differs", culprits, "written %r (as a sheet: %r), read back %r" % (
                [[cell if len(cell) < 200 else cell[:20] + "...<%d characters>" % len(cell) for cell in row] for row in table],
                "see above" if max([len(cell) for row in table for cell in row] or [0]) >= 200 else wanted,
                [[cell if len(cell) < 200 else cell[:20] + "...<%d characters>" % len(cell) for cell in row] for row in value]))
        return result

    sheets = scenario["sheets"]
    sheet = scenario["sheet"]
    date1904 = bool(scenario.get("date1904"))
    data = xlsx.encode([[[peer_cell(cell, date1904) for cell in row] for row in table] for table in sheets],
                       stored=scenario.get("stored", False), date1904=date1904,
                       hidden={index: state for index, state in scenario.get("hidden") or []})
    fs.store("book.xlsx", data)
    if any(index < sheet - 1 for index, _ in scenario.get("hidden") or []):
        result.probe("hidden-sheet-in-front-of-the-requested-one")
    if scenario.get("other_date_system_first"):
        # a workbook using the other date system but the very same serial numbers is read first in this process
        other = xlsx.encode([[[peer_cell(cell, date1904) for cell in row] for row in table] for table in sheets],
                            date1904=not date1904)
        other_path = "book.xlsx" if scenario.get("other_at_same_path") else "other.xlsx"
        fs.store(other_path, other)
        with simfs.Seams(fs):
            for number in range(1, len(sheets) + 1):
                lib.call(lambda: list(rowio.excel_rows(other_path, number)))
        fs.store("book.xlsx", data)
        result.probe("other-date-system-read-first")
    if date1904:
        result.probe("date-system-1904")
    missing = sheet > len(sheets)
    wanted = None
    if not missing:
        texts = [[expected_text(cell) for cell in row] for row in sheets[sheet - 1]]
        wanted = tabular.as_read(spec_excel, texts)
    via = scenario.get("via", "direct")
    with simfs.Seams(fs):
        if via == "reader" and wanted and wanted[0]:
            width = len(wanted[0])
            cid_rows = [["d", "format", "excel"], ["d", "sheet", str(sheet)]] + [
                ["f", "c%d" % index, "", "X", "", "Text", ""] for index in range(width)]
            cid = lib.load_cid(cid_rows)
            run = lib.ReadRun(cid, "book.xlsx", "Reader", "raise")
            while run.step():
                pass
            run.close()
            if run.raised is not None:
                status, value = "exc", run.raised
            else:
                status, value = "ok", [item[1] for item in run.items]
            result.probe("via:reader")
        else:
            via = "direct"
            status, value = lib.call(lambda: lib.collect_rows(rowio.excel_rows("book.xlsx", sheet)))
            result.probe("via:direct")
    history.add("client", "excel_rows", {"sheet": sheet, "via": via, "status": status,
                                         "value": value if status == "ok" else lib.error_summary(value)})
    kinds = []
    for row in (sheets[sheet - 1] if not missing else []):
        row_kinds = []
        for cell in row:
            if cell is None:
                result.probe("gap")
                row_kinds.append("gap")
                continue
            kind = cell[0]
            if kind in ("d", "t") and len(cell) > 2 and cell[2]:
                result.probe("fractional-second")
            if kind == "n":
                is_int = float(cell[1]) == int(float(cell[1])) if abs(float(cell[1])) < 1e300 else False
                kind = "n-int" if is_int else "n-float"
                if is_int and abs(float(cell[1])) >= 2 ** 52:
                    result.probe("big-integer")
            result.probe("kind:" + kind)
            row_kinds.append(kind)
        kinds.append(row_kinds)
    if len({len(row) for row in kinds}) > 1:
        result.probe("ragged-rows")
    if missing:
        result.probe("missing-sheet")
    result.probe("sheet:%d" % sheet)
    result.nontrivial = any(kind not in ("s", "ss", "gap") for row in kinds for kind in row) or missing
    result.schedule_sig = ["peer", len(sheets), sheet, via, kinds]
    result.ticks = history.ticks + fs.ticks
    result.digest = history.digest()
    result.trace = {"sheet": sheet, "cells": sheets[sheet - 1] if not missing else None, "wanted": wanted,
                    "got": value if status == "ok" else lib.error_summary(value)}

    if missing:
        if status == "ok":
            raise core.Violation("missing-sheet-read-without-error", ["sheets=%d" % len(sheets)], "sheet %d of %d returned %r" % (
                sheet, len(sheets), value))
        if not isinstance(value, errors.DataFormatError):
            raise core.Violation("missing-sheet-other-exception", ["class=" + type(value).__name__], repr(value))
        return result
    if status == "exc":
        raise core.Violation("workbook-rejected", ["class=" + type(value).__name__, "via=" + via], repr(value))
    if value != wanted:
        features = set()
        if len(value) != len(wanted) or any(len(a) != len(b) for a, b in zip(value, wanted)):
            features.add("shape")
        other_sheets = [tabular.as_read(spec_excel, [[expected_text(cell) for cell in row] for row in table])
                        for index, table in enumerate(sheets) if index != sheet - 1]
        if value in other_sheets:
            features.add("rows-of-another-sheet")
        else:
            for row_index, (got_row, wanted_row) in enumerate(zip(value, wanted)):
                for cell_index, (got, want) in enumerate(zip(got_row, wanted_row)):
                    if got != want and row_index < len(kinds) and cell_index < len(kinds[row_index]):
                        features.add("kind=" + kinds[row_index][cell_index])
        raise core.Violation("sheet-rendering-differs", sorted(features) + ["via=" + via],
                             "sheet %d: wanted %r, got %r" % (sheet, wanted, value))
    return result


def candidates(scenario):
    if scenario["producer"] == "writer":
        if scenario.get("batches"):
            yield lib.with_value(scenario, ["batches"], None)
            for candidate in lib.drop_candidates(scenario, ["batches"]):
                yield candidate
            return
        for candidate in lib.drop_candidates(scenario, ["table"]):
            yield candidate
        for row_index, row in enumerate(scenario["table"]):
            for candidate in lib.drop_candidates(scenario, ["table", row_index], minimum=1):
                yield candidate
        if scenario.get("use_write_rows"):
            yield lib.with_value(scenario, ["use_write_rows"], False)
        for candidate in lib.io_candidates(scenario):
            yield candidate
        return
    sheets = scenario["sheets"]
    for index in range(len(sheets)):
        if index != scenario["sheet"] - 1 and len(sheets) > 1:
            candidate = copy.deepcopy(scenario)
            del candidate["sheets"][index]
            if index < scenario["sheet"] - 1:
                candidate["sheet"] -= 1
            yield candidate
    for sheet_index in range(len(sheets)):
        for candidate in lib.drop_candidates(scenario, ["sheets", sheet_index]):
            yield candidate
        for row_index in range(len(sheets[sheet_index])):
            for candidate in lib.drop_candidates(scenario, ["sheets", sheet_index, row_index]):
                yield candidate
    if scenario.get("via") != "direct":
        yield lib.with_value(scenario, ["via"], "direct")
    if scenario.get("stored"):
        yield lib.with_value(scenario, ["stored"], False)
    if scenario.get("other_date_system_first"):
        yield lib.with_value(scenario, ["other_date_system_first"], False)
    if scenario.get("date1904"):
        yield lib.with_value(scenario, ["date1904"], False)
    for candidate in lib.drop_candidates(scenario, ["hidden"]) if scenario.get("hidden") else []:
        yield candidate
    for candidate in lib.io_candidates(scenario):
        yield candidate
    for sheet_index, table in enumerate(sheets):
        for row_index, row in enumerate(table):
            for cell_index, cell in enumerate(row):
                if cell is not None and cell != ["s", "a"]:
                    candidate = copy.deepcopy(scenario)
                    candidate["sheets"][sheet_index][row_index][cell_index] = ["s", "a"]
                    yield candidate
