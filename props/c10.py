"""C10 — CID and data problems surface as cutplace errors, never as internal failures.

Fault enumeration.  (a) ``cell-hostile``: every cell of every row kind (D, F, C rows of valid base
CIDs; data cells) is replaced, one at a time, by each member of a pool of hostile values (bounded
sweep, exhaustive for single cells; seeded pairs on top).  (b) container faults on stored CID and
data files in every storage format (peer-generated csv / fixed / ods / xlsx and the repository's own
.xls / .ods / .xlsx fixtures): truncation and bit flips at seeded offsets, undecodable bytes,
unterminated quotes, short records.  After every fault: load the CID, read the data in the three
modes, ``validate`` it and run ``main()``.  Oracle: the run ends normally or with an exception that is
an instance of InterfaceError or DataError; ``main()`` never answers 4."""
import copy
import re
import os

from sim import boot, core, lib, simfs, tabular
from sim.peers import odf, xlsx

ID = "C10"
LEVEL = "fault_enumeration"
QUICK_RUNS = 12000
BATCH = 200
SWEEP_BATCH = 400
SWEEP_EXHAUSTIVE_NOTE = ("single-fault sweep: every cell (columns 0-7) of every row of the 5 base CIDs and every cell of the "
                         "base data tables is replaced, one at a time, by each member of the hostile pool; and the "
                         "peer-generated ODS and XLSX base data files get every single bit flipped and are truncated at "
                         "every offset; exhaustive for that sub-space")
HOSTILE = ['"abc', "'", '"""', "(", ")", "[", "]", "1...", "...", "…", "--1", "0x", "0xZZ", "99999999999999999999999999",
           "-99999999999999999999", "NaN", "Infinity", "-inf", "\x00", "ü", "€", "", " ", "class", "None", "lambda", "*",
           "+", "?", "(?P<", "[a-", "\\", "a{2,1}", "%", "1e400", "1,2", "x" * 70, "\n", "\t", "\\x", '"\\x"', "'\\N{'",
           "1:2:3", "tab", "any", "none", "0", "-1", "65536", "1.5", ",", ".", ";", "#", "a b", "f,", "é=1", "count",
           "DD.MM", "%%", "{", "2:1", "x", "X", "is_valid", "is valid", "format", "Header", "encoding", "__dict__", "_header",
           # legal Python tokens / codec names / expressions that are not what cutplace expects
           "b'a'", "\udc80", "a{99999999999999}", "hex", "rot13", "base64", "idna", "color < 100 // (count - 2)",
           "id < (5, 4)[count]", "id < 10 ** (10 ** count)", "id.x > 1", "1 if count else x",
           # str.isdigit() is true for all of these, int() takes only some of them; more digits than int() converts
           "\u00b2", "7\u00b3", "\u2460", "\u0663\u0664", "9" * 4301,
           # multi-byte encodings the stored bytes do not fit; a date layout naming a part twice; a rule continued on
           # a second line
           "utf-16", "utf-32", "DD.DD", "hh:hh", "\\\nid < 3",
           # nested deeper than the regular expression parser recurses
           "(" * 600 + "a" + ")" * 600,
           # in range, but with more digits than the decimal context carries; what the csv module calls its quoting modes
           "1,5" + "0" * 30, "1.5" + "0" * 30, "nonnumeric", "strings", "notnull",
           # a rule is evaluated as a Python expression: it must not be able to end the process
           "id < exit()", "id < __import__('sys').exit(3)",
           # numbers Python can hold but not print (more than 4300 digits), or not convert (exponent beyond a C int)
           "0x" + "f" * 4000, "1...0x" + "f" * 4000, "0...1e-9999999999",
           # sound ranges made of several parts, one of them open at its lower end: values in the gap get a message
           "...1, 3...", "...-1, 10...99", "...57, 65...",
           # a leap second: time.strptime() takes it, datetime does not
           "23:59:60", "1999-12-31 23:59:60"]
RULE_TEXT = (
    "fault enumeration: sweep of (base CID or data table, row, column, hostile value) single-cell replacements (see "
    "sweep_note) plus seeded scenarios with two hostile cells at once or one container fault (truncate / bitflip / "
    "undecodable / open-quote / short-record) on a stored CID or data file in csv, fixed, ods, xlsx or one of the "
    "repository's .xls/.ods/.xlsx fixtures. After the fault: Cid load, rows() in three modes, validate(), main(). "
    "Non-trivial: every case (each injects exactly one or two faults). Distinct: (base, target, row, column, value) resp. "
    "(file kind, fault kind, offset class)."
)
ASSUMPTIONS = [
    "both InterfaceError and DataError are allowed in both phases: a torn CID file legitimately surfaces as "
    "DataFormatError; the check demands exactly 'no other exception type'",
    "hostile values containing NUL or other characters XML cannot carry are not stored into ods/xlsx by the peers",
    "no hostile value is a regular expression that can backtrack catastrophically, and none asks for gigabytes (a length "
    "of 3000000000 makes an Integer field build strings of that size: whether that ends in MemoryError depends on the "
    "machine, so it is not part of the pool; astronomically large lengths that fail deterministically are)",
]
COMPONENTS = {
    "real": ["all of cutplace (interface, data, fields, ranges, checks, validio, rowio, applications)", "tokenize", "re",
             "fnmatch", "decimal", "time.strptime", "csv", "codecs", "zipfile", "zlib", "ElementTree", "xlrd"],
    "stub": ["SimFS/SimRaw", "peers", "fault injector"],
}
PROBES_REQUIRED = ["base-accepted:delimited", "base-accepted:quoted", "base-accepted:fixed", "base-accepted:excel", "base-accepted:ods", "writer-phase", "target:cid-cell", "target:data-cell", "target:cid-file", "target:data-file", "fault:truncate",
                   "fault:bitflip", "fault:undecodable", "fault:open-quote", "fault:short-record", "pair", "fixture:xls",
                   "fixture:ods", "fixture:xlsx", "outcome:interface-error", "outcome:data-error", "outcome:accepted",
                   "main-ran"]
D_COLUMNS = ["marker", "name", "value"]
F_COLUMNS = ["marker", "name", "example", "empty", "length", "type", "rule"]
C_COLUMNS = ["marker", "description", "type", "rule"]

BASES = {
    "delimited": {
        "cid": [["d", "format", "delimited"], ["d", "encoding", "utf-8"], ["d", "item delimiter", ";"],
                ["d", "line delimiter", "lf"], ["d", "quote character", '"'], ["d", "escape character", "\\"],
                ["d", "header", "1"], ["d", "allowed characters", "32:255"], ["d", "decimal separator", ","],
                ["d", "thousands separator", "."], ["d", "quoting", "minimal"], ["d", "skip initial space", "false"],
                ["", "a comment row"],
                ["f", "id", "42", "", "1:5", "Integer", "0:99999"], ["f", "amount", "1,5", "X", "", "Decimal", "0:9999.99"],
                ["f", "color", "red", "", "", "Choice", "red, green"], ["f", "kind", "k", "", "1", "Constant", "k"],
                ["f", "day", "31.12.1999", "", "10", "DateTime", "DD.MM.YYYY"], ["f", "code", "ab", "", "", "Pattern", "a*"],
                ["f", "word", "aab", "", "", "RegEx", "a+b"], ["f", "note", "x", "X", "0:10", "Text", ""],
                ["c", "id is unique", "IsUnique", "id, color"], ["c", "few colors", "DistinctCount", "color <= 2"]],
        "data": [["id", "amount", "color", "kind", "day", "code", "word", "note"],
                 ["1", "1,5", "red", "k", "31.12.1999", "ab", "aab", "x"],
                 ["2", "", "green", "k", "01.02.2003", "a", "ab", ""]],
    },
    "quoted": {
        # a quote character of its own, everything else left at its default; the data contain the quote character
        # (one data format row stands below the first field row: rows may come in any order as long as Format is first)
        "cid": [["d", "format", "delimited"], ["d", "quote character", "'"],
                ["f", "id", "", "", "", "Integer", ""], ["d", "item delimiter", ";"],
                ["f", "surname", "O'Brian", "", "", "Text", ""],
                ["f", "remark", "", "X", "", "Text", ""]],
        "data": [["1", "O'Brian", "x;y"], ["2", "Miller", "it's"], ["3", "'", ""]],
    },
    "fixed": {
        "cid": [["d", "format", "fixed"], ["d", "encoding", "ascii"], ["d", "line delimiter", "any"], ["d", "header", "0"],
                ["d", "allowed characters", ""], ["d", "decimal separator", "."], ["d", "thousands separator", ","],
                ["f", "flag", "y", "", "1", "Choice", "y,n"],
                ["f", "id", "7", "", "3", "Integer", "0...999"], ["f", "amount", "1.5", "X", "6", "Decimal", ""],
                ["f", "color", "red", "", "5", "Choice", "red,green"], ["f", "day", "1999-12-31", "X", "10", "DateTime", "YYYY-MM-DD"],
                ["f", "note", "", "X", "4", "Text", ""],
                ["c", "id is unique", "IsUnique", "id"], ["c", "some colors", "DistinctCount", "color >= 1"]],
        "data": [["y", "1", "1.5", "red", "1999-12-31", "x"], ["n", "22", "", "green", "", ""], ["y", "3", "", "red", "", ""]],
    },
    "excel": {
        "cid": [["d", "format", "excel"], ["d", "sheet", "1"], ["d", "header", "0"], ["d", "allowed characters", "…255"],
                ["f", "id", "", "", "", "Integer", "1…"], ["f", "name", "abc", "X", "…5", "Text", ""],
                ["f", "amount", "", "X", "", "Decimal", "-10.5:10.5"],
                ["c", "id is unique", "IsUnique", "id"]],
        "data": [["1", "abc", "1.5"], ["2", "", "-3"]],
    },
    "ods": {
        "cid": [["d", "format", "ods"], ["d", "sheet", "1"],
                ["f", "id", "", "", "1:3", "Integer", ""], ["f", "when", "", "X", "", "DateTime", "hh:mm:ss"],
                ["f", "code", "", "", "", "RegEx", "[a-z]+\\d?"],
                ["c", "distinct ids", "DistinctCount", "id > 0"]],
        "data": [["1", "12:30:00", "abc"], ["22", "", "x1"]],
    },
}
BASE_NAMES = sorted(BASES)
FIXTURES = ["valid_customers.xls", "valid_customers.xlsx", "valid_customers.ods", "fieldtypes.xls", "fieldtypes.ods",
            "dates_and_times.xls", "valid_native_excel_formats.xls", "test.ods"]


def _spec_for(base_name):
    fmt = "delimited" if base_name == "quoted" else base_name
    return {"format": fmt, "line_delimiter": {"delimited": "lf", "fixed": "any"}.get(fmt, "lf"), "fields": []}


def _store_data(fs, base_name, table, path, eol="\n"):
    if base_name == "delimited":
        fs.store(path, lib.render_delimited(table, ";", '"', "\n").encode("utf-8", "replace"))
    elif base_name == "quoted":
        fs.store(path, lib.render_delimited(table, ";", "'", "\n").encode("utf-8", "replace"))
    elif base_name == "fixed":
        widths = [1, 3, 6, 5, 10, 4]
        text = "".join("".join(cell[:width].ljust(width) for cell, width in zip(row, widths)) + eol for row in table)
        fs.store(path, text.encode("ascii", "replace"))
    elif base_name == "excel":
        fs.store(path, xlsx.encode([xlsx.text_table(table)]))
    else:
        data, _, _ = odf.encode([table], ())
        fs.store(path, data)


def _data_path(base_name):
    return {"delimited": "data.csv", "quoted": "data.csv", "fixed": "data.txt", "excel": "data.xlsx", "ods": "data.ods"}[base_name]


def _xml_safe(text):
    return all(char in "\t\n" or 32 <= ord(char) < 0xD800 or 0xE000 <= ord(char) for char in text)


def _utf8(text):
    try:
        text.encode("utf-8")
        return True
    except UnicodeEncodeError:
        return False


# ---- sweep ----------------------------------------------------------------------------------------
_SWEEP = None


def _sweep_cases():
    global _SWEEP
    if _SWEEP is None:
        cases = []
        for base_name in BASE_NAMES:
            base = BASES[base_name]
            # the base as it is, without any fault: it has to load and to accept its data (probe base-accepted:<name>),
            # otherwise every fault planted into it would only ever meet the error the base has anyway
            cases.append((base_name, "none", 0, 0, 0))
            for row_index, row in enumerate(base["cid"]):
                for column in range(8):
                    for value_index in range(len(HOSTILE)):
                        cases.append((base_name, "cid", row_index, column, value_index))
            for row_index, row in enumerate(base["data"]):
                for column in range(len(row)):
                    for value_index in range(len(HOSTILE)):
                        cases.append((base_name, "data", row_index, column, value_index))
        # every single bit flip and every truncation of the small peer-generated data archives
        for base_name in ("ods", "excel"):
            fs = simfs.SimFS()
            _store_data(fs, base_name, BASES[base_name]["data"], "probe")
            size = len(fs.files["probe"])
            for offset in range(size):
                for bit in range(8):
                    cases.append((base_name, "flip", offset, bit, size))
                cases.append((base_name, "cut", offset, 0, size))
        _SWEEP = cases
    return _SWEEP


def sweep_size(tier):
    return len(_sweep_cases())


def sweep_slice(tier, start, count):
    for base_name, target, row_index, column, value_index in _sweep_cases()[start:start + count]:
        if target == "none":
            yield {"property": ID, "sweep": True, "base": base_name, "io": {"regime": "whole"}, "cells": [],
                   "container": None, "cid_storage": "rows"}
            continue
        if target in ("flip", "cut"):
            yield {"property": ID, "sweep": True, "base": base_name, "io": {"regime": "whole"}, "cells": [],
                   "cid_storage": "rows",
                   "container": {"target": "data-file", "kind": "bitflip" if target == "flip" else "truncate",
                                 "offset": row_index, "bit": column, "at": row_index / float(value_index)}}
            continue
        yield {"property": ID, "sweep": True, "base": base_name, "io": {"regime": "whole"},
               "cells": [{"target": target, "row": row_index, "column": column, "value": HOSTILE[value_index]}],
               "container": None, "cid_storage": "rows"}


# ---- composed hostile values: fragments of the little languages a cell of that kind is written in ------------
def _codec_names():
    import encodings.aliases

    return sorted(set(encodings.aliases.aliases.values()) | {"utf_8_sig", "idna", "punycode", "unicode_escape",
                                                            "raw_unicode_escape", "undefined", "mbcs", "oem"})


FRAGMENTS = {
    "generic": ["a", "x", "1", "0", " ", "\t", "\n", "\r", "\\", "'", '"', ",", ";", ":", ".", "...", "\u2026", "-", "%", "#", "(", ")",
                "[", "]", "{", "}", "*", "+", "?", "|", "^", "$", "=", "<", ">", "\x00", "\u00fc", "\u00b2", "\ufeff", "\u2028"],
    "date": ["DD", "MM", "YYYY", "YY", "hh", "mm", "ss", ".", "-", ":", " ", "/", "%", "%d", "%Y", "T", "D", "Y"],
    "expr": ["id", "count", "color", "amount", "name", " ", "<", ">", "<=", "==", "!=", "=", "(", ")", "[", "]", "1", "0", "2", ".", ",",
             "\\\n", "\n", "#", "lambda", ":", "if", "else", "or", "and", "not", "in", "is", "'", '"', "+", "-", "*", "//", "%", "~",
             "None", "True", "x", "_", "@", ";", "\t"],
    "range": ["0", "1", "5", "9", "99", ":", "...", "\u2026", ",", "-", ".", " ", "x", "'a'", '"b"', "0x1f", "1e3", "+", "_"],
    "regex": ["a", "b", "+", "*", "?", "(", ")", "[", "]", "{", "}", "|", "\\", "^", "$", "(?P<n>", "(?P=n)", "(?i)", "(?#", "{2,1}",
              "{1,2}", "\\1", "\\d", "\\Z", "[^", "a-", "-a", "(?<=", "(?!", "."],
    "choice": ["red", "green", ",", " ", "'", '"', "\u00e4", "1", "-", ",,", "\t", "#"],
}


def _fragment_class(base, target, row_index, column):
    if target != "cid":
        return "generic"
    row = base["cid"][row_index]
    kind = (row[0] or "").lower()
    if kind == "d" and column == 1:
        return "propname"
    if kind == "d" and column == 2:
        name = row[1]
        if name == "encoding":
            return "codec"
        if name in ("header", "sheet", "allowed characters"):
            return "range"
        return "generic"
    if kind == "f":
        type_name = row[5] if len(row) > 5 else ""
        if column == 4:
            return "range"
        if column == 6:
            return {"DateTime": "date", "RegEx": "regex", "Pattern": "regex", "Choice": "choice", "Integer": "range",
                    "Decimal": "range"}.get(type_name, "generic")
        if column == 2:
            return {"DateTime": "date", "Integer": "range", "Decimal": "range"}.get(type_name, "generic")
        return "generic"
    if kind == "c" and column == 3:
        return "expr"
    return "generic"


def _composed_value(rng, base, target, row_index, column):
    fragment_class = _fragment_class(base, target, row_index, column)
    if fragment_class == "codec":
        return rng.choice(_codec_names())
    if fragment_class == "propname":
        # whatever a data format object of the tree under test calls its attributes, spelled like a property name
        from cutplace import data

        names = sorted(vars(data.DataFormat(base["cid"][0][2])))
        name = rng.choice(names)
        return rng.choice([name, name.lstrip("_"), name.lstrip("_").replace("_", " ")])
    fragments = FRAGMENTS[fragment_class]
    value = "".join(rng.choice(fragments) for _ in range(rng.randint(1, 5)))
    if fragment_class == "range":
        # lengths and limits that ask for gigabytes are not part of the pool (see ASSUMPTIONS): no number above 999999
        value = re.sub(r"[0-9a-fA-Fx_]{7,}", lambda match: match.group()[:6], value)
    if fragment_class == "expr" and rng.random() < 0.6:
        # most rules of a check start with a field name
        value = rng.choice(["id", "color", "amount"]) + " " + value
    return value


def generate(seed, tier):
    rng = core.stream(seed, "gen")
    swarm = core.stream(seed, "swarm")
    fault_rng = core.stream(seed, "fault")
    base_name = swarm.choice(BASE_NAMES)
    base = BASES[base_name]
    scenario = {"base": base_name, "io": simfs.IoConfig.draw(swarm), "cells": [], "container": None,
                "cid_storage": swarm.choice(["rows", "csv", "ods", "xlsx"]), "eol": swarm.choice(["\n", "\n", "\r", "\r\n"])}
    roll = swarm.random()
    if roll < 0.45:
        for _ in range(2):
            target = fault_rng.choice(["cid", "cid", "data"])
            rows = base[target]
            row_index = fault_rng.randrange(len(rows))
            column = fault_rng.randrange(8 if target == "cid" else len(rows[row_index]))
            if fault_rng.random() < 0.5:
                value = fault_rng.choice(HOSTILE)
            else:
                # not from the list: composed of fragments of the little language this kind of cell is written in
                if target == "cid" and fault_rng.random() < 0.7:
                    # prefer the cells that are written in a language: values of properties, lengths, rules, examples
                    kind = (rows[row_index][0] or "").lower()
                    column = fault_rng.choice({"d": [1, 2, 2], "f": [2, 4, 6, 6], "c": [3]}.get(kind, [column]))
                value = _composed_value(fault_rng, base, target, row_index, column)
            scenario["cells"].append({"target": target, "row": row_index, "column": column, "value": value})
    elif roll < 0.8:
        target = fault_rng.choice(["cid-file", "data-file", "data-file"])
        kinds = ["truncate", "bitflip"]
        if target == "data-file" and base_name in ("delimited", "fixed"):
            kinds += ["undecodable", "open-quote" if base_name == "delimited" else "short-record"]
        if target == "cid-file":
            scenario["cid_storage"] = swarm.choice(["csv", "ods", "xlsx"])
            if scenario["cid_storage"] == "csv":
                kinds += ["undecodable", "open-quote"]
        scenario["container"] = {"target": target, "kind": fault_rng.choice(kinds), "at": fault_rng.random(),
                                 "bit": fault_rng.randrange(8)}
    else:
        scenario["container"] = {"target": "fixture", "fixture": fault_rng.choice(FIXTURES),
                                 "kind": fault_rng.choice(["truncate", "bitflip", "bitflip"]), "at": fault_rng.random(),
                                 "bit": fault_rng.randrange(8)}
    return scenario


def _damage(data, container):
    kind = container["kind"]
    if not data:
        return data
    position = min(len(data) - 1, container["offset"] if "offset" in container else int(container["at"] * len(data)))
    if kind == "truncate":
        return data[:position]
    if kind == "bitflip":
        damaged = bytearray(data)
        damaged[position] ^= 1 << container["bit"]
        return bytes(damaged)
    if kind == "undecodable":
        return data[:position] + b"\xff\xfe" + data[position:]
    if kind == "open-quote":
        line_start = data.rfind(b"\n", 0, position) + 1
        return data[:line_start] + b'"' + data[line_start:]
    if kind == "short-record":
        return data[:max(1, len(data) - 1 - (position % 5 + 1))]
    raise ValueError(kind)


def _apply_cells(scenario, cid_rows, data_rows):
    for cell in scenario["cells"]:
        rows = cid_rows if cell["target"] == "cid" else data_rows
        row = rows[cell["row"]]
        while len(row) <= cell["column"]:
            row.append("")
        row[cell["column"]] = cell["value"]


def _classify(value):
    from cutplace import errors

    if isinstance(value, errors.InterfaceError):
        return "interface-error"
    if isinstance(value, errors.DataError):
        return "data-error"
    if isinstance(value, errors.CutplaceError):
        return "cutplace-error"
    return None


def _call_main(argv):
    import contextlib
    import io

    from cutplace import applications

    sink = io.StringIO()
    try:
        with contextlib.redirect_stderr(sink), contextlib.redirect_stdout(sink):
            return "exit", applications.main(argv), None
    except SystemExit as error:
        return "system-exit", error.code, None
    except Exception as error:  # noqa: B902
        return "exception", None, error


def execute(scenario):
    from cutplace import interface, validio

    result = core.Result()
    history = core.History()
    base_name = scenario["base"]
    base = BASES[base_name]
    cid_rows = copy.deepcopy(base["cid"])
    data_rows = copy.deepcopy(base["data"])
    _apply_cells(scenario, cid_rows, data_rows)
    container = scenario.get("container")
    fs = simfs.SimFS(simfs.IoConfig.from_dict(scenario["io"]))
    storage = scenario.get("cid_storage", "rows")
    texts = [cell for row in cid_rows for cell in row]
    if storage in ("ods", "xlsx") and not all(_xml_safe(text) for text in texts):
        storage = "csv"
    if storage == "csv" and any("\x00" in text or not _utf8(text) for text in texts):
        storage = "rows"  # the csv module refuses NUL (and utf-8 lone surrogates) before cutplace sees it
    data_path = _data_path(base_name)
    if not all(_xml_safe(cell) for row in data_rows for cell in row) and base_name in ("excel", "ods"):
        data_rows = [[cell if _xml_safe(cell) else "?" for cell in row] for row in data_rows]
    _store_data(fs, base_name, data_rows, data_path, scenario.get("eol", "\n"))
    cid_path = {"rows": None, "csv": "cid.csv", "ods": "cid.ods", "xlsx": "cid.xlsx"}[storage]
    if storage == "csv":
        fs.store(cid_path, lib.render_delimited(cid_rows, ",", '"', "\n").encode("utf-8", "replace"))
    elif storage == "ods":
        fs.store(cid_path, odf.encode([cid_rows], ())[0])
    elif storage == "xlsx":
        fs.store(cid_path, xlsx.encode([xlsx.text_table(cid_rows)]))
    features = []
    if container:
        result.fault(container["kind"])
        result.probe("fault:" + container["kind"])
        if container["target"] == "fixture":
            name = container["fixture"]
            with open(os.path.join(boot.REPO, "tests", "data", name), "rb") as stream:
                fixture = stream.read()
            suffix = os.path.splitext(name)[1]
            data_path = "fixture" + suffix
            fs.store(data_path, _damage(fixture, container))
            result.probe("fixture:" + suffix.lstrip("."))
            result.probe("target:data-file")
            features = ["fixture" + suffix, "fault=" + container["kind"]]
        elif container["target"] == "cid-file":
            fs.store(cid_path, _damage(bytes(fs.files[cid_path]), container))
            result.probe("target:cid-file")
            features = ["cid-file=" + storage, "fault=" + container["kind"]]
        else:
            fs.store(data_path, _damage(bytes(fs.files[data_path]), container))
            result.probe("target:data-file")
            features = ["data-file=" + base_name, "fault=" + container["kind"]]
    for cell in scenario["cells"]:
        result.probe("target:%s-cell" % cell["target"])
        if cell["target"] == "cid":
            kind = (base["cid"][cell["row"]][0] or "comment").lower()
            columns = {"d": D_COLUMNS, "f": F_COLUMNS, "c": C_COLUMNS}.get(kind, [])
            column = columns[cell["column"]] if cell["column"] < len(columns) else "beyond"
            row_name = base["cid"][cell["row"]][1].replace(" ", "_") if kind == "d" and len(base["cid"][cell["row"]]) > 1 else (
                base["cid"][cell["row"]][5] if kind == "f" else (base["cid"][cell["row"]][2] if kind == "c" else ""))
            features.append("cid:%s.%s[%s]" % (kind, column, row_name))
        else:
            features.append("data:%s.column%d" % (base_name, cell["column"]))
    if len(scenario["cells"]) == 2:
        result.probe("pair")

    leaks = []

    def judge(phase, status, value):
        if status == "exc":
            kind = _classify(value)
            if kind is None:
                leaks.append((phase, value))
            else:
                result.probe("outcome:" + kind)
            history.add("sut", phase, lib.error_summary(value))
        else:
            history.add("sut", phase, "ok")

    with simfs.Seams(fs):
        fixture_mode = bool(container and container["target"] == "fixture")
        if fixture_mode:
            # damaged real-world spreadsheets, read as data and as CID
            from cutplace import rowio

            status, value = lib.call_with_deadline(8, lambda: list(rowio.auto_rows(data_path)))
            if status == "hang":
                # non-termination is neither "succeeds" nor "raises a cutplace error"
                result.digest = history.digest()
                raise core.Violation("does-not-terminate", sorted(features), "reading %s: %s" % (data_path, value))
            judge("fixture-rows", status, value)
            judge("fixture-as-cid", *lib.call_with_deadline(8, interface.Cid, data_path))
            status, code, error = lib.call_with_deadline(8, _call_main, ["cutplace", data_path])[1]
            history.add("sut", "main", [status, code])
            if status == "exception" or code == 4:
                leaks.append(("main", error or RuntimeError("exit code 4")))
            result.probe("main-ran")
        else:
            if cid_path is None:
                status, value = lib.call(lib.load_cid, cid_rows)
            else:
                status, value = lib.call(interface.Cid, cid_path)
            judge("load", status, value)
            if status == "ok":
                cid = value
                for mode in ("raise", "yield", "continue"):
                    def read(mode=mode):
                        run = lib.ReadRun(cid, data_path, "Reader", mode)
                        while run.step():
                            pass
                        first = run.raised
                        run.close()
                        if first is not None:
                            raise first
                        if run.closed != "ok":
                            raise run.closed

                    judge("rows-" + mode, *lib.call(read))
                judge("validate", *lib.call(validio.validate, cid, data_path))
                if cid.data_format.format in ("delimited", "fixed"):
                    # the same rows offered to a validated Writer, one by one and as one batch
                    # header rows pass through a Writer unvalidated (what they may hold is the caller's business and
                    # rowio documents an AssertionError for misfits): they are written as empty names here
                    header_count = cid.data_format.header
                    writable = [[""] * len(cid.field_formats)] * min(header_count, len(data_rows)) + [
                        list(row) for row in data_rows[header_count:]]  # rows with too few or too many items included
                    status, writer = lib.call(validio.Writer, cid, "out.txt")
                    judge("writer-open", status, writer)
                    if status == "ok":
                        for row in writable:
                            judge("write-row", *lib.call(writer.write_row, row))
                        judge("write-rows", *lib.call(writer.write_rows, writable))
                        judge("writer-close", *lib.call(writer.close))
                        result.probe("writer-phase")
                if not leaks and all(event[3] == "ok" for event in history.events if event[2].startswith(("rows", "validate"))):
                    result.probe("outcome:accepted")
                    if not scenario["cells"] and not container:
                        result.probe("base-accepted:" + base_name)
            if cid_path is not None:
                status, code, error = _call_main(["cutplace", cid_path, data_path])
                history.add("sut", "main", [status, code])
                result.probe("main-ran")
                if status == "exception":
                    leaks.append(("main", error))
                elif code == 4:
                    leaks.append(("main", RuntimeError("exit code 4")))
                elif status == "system-exit" and code != 2:
                    leaks.append(("main", RuntimeError("SystemExit(%r)" % (code,))))
    result.nontrivial = True
    if scenario.get("sweep") and not scenario["cells"] and not container:
        result.schedule_sig = [base_name, "unchanged"]
    elif scenario.get("sweep") and scenario["cells"]:
        cell = scenario["cells"][0]
        result.schedule_sig = [base_name, cell["target"], cell["row"], cell["column"], cell["value"]]
    elif scenario.get("sweep"):
        result.schedule_sig = [base_name, container["kind"], container["offset"], container["bit"]]
    else:
        result.schedule_sig = [base_name, storage, [[cell["target"], cell["row"], cell["column"], cell["value"]] for cell in scenario["cells"]],
                               None if not container else [container["target"], container.get("fixture"), container["kind"],
                                                           round(container["at"], 2)]]
    result.ticks = history.ticks + fs.ticks
    result.digest = history.digest()
    result.trace = {"base": base_name, "cells": scenario["cells"], "container": container,
                    "events": [event[2:] for event in history.events][:8]}
    if leaks:
        phase, error = leaks[0]
        phase_class = "load" if phase in ("load", "fixture-as-cid") else ("main" if phase == "main" else "data")
        raise core.Violation("non-cutplace-exception-escapes", sorted(features) + ["phase=" + phase_class,
                                                                                  "class=" + type(error).__name__],
                             "%s: %s: %s" % (phase, type(error).__name__, str(error)[:300]))
    return result


def candidates(scenario):
    if scenario.get("sweep"):
        return
    if len(scenario["cells"]) > 1:
        for index in range(len(scenario["cells"])):
            yield lib.with_value(scenario, ["cells"], scenario["cells"][:index] + scenario["cells"][index + 1:])
    for candidate in lib.io_candidates(scenario):
        yield candidate
    if scenario.get("cid_storage") not in ("rows", None) and not (scenario.get("container") or {}).get("target") == "cid-file":
        yield lib.with_value(scenario, ["cid_storage"], "rows")
