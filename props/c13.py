"""C13 — fixed-width reading is lossless and aligned.

For any character stream, field widths and line-delimiter setting ``rowio.fixed_rows`` either fails
with a DataFormatError or returns rows that are one of the parses of the input (exact widths,
concatenation with permitted delimiters reproduces the input, final delimiter optional).

Workload: (i) well-formed files rendered by the fixed peer, (ii) the same with one character deleted,
inserted or replaced, (iii) random strings over {a, b, CR, LF}; bounded sweep of all short strings.
Schedule / fault space: three ways in (StringIO, chunked TextIOWrapper over SimRaw, SimFS path where
cutplace chooses the open() arguments), chunk boundaries on CR / on the pushed-back character / inside
a multi-byte character, and a *prior reader in the same process abandoned after k rows* (readers must
not share look-ahead state).  Oracle: RefFixed enumerates every parse by plain recursion."""
import copy
import io
import itertools

from sim import core, lib, simfs

ID = "C13"
LEVEL = "exploration"
QUICK_RUNS = 40000
BATCH = 1000
SWEEP_BATCH = 40
SWEEP_EXHAUSTIVE_NOTE = ("bounded sweep: every string over {a,b,CR,LF} up to length L x all 39 width lists (1-3 fields "
                         "of width 1-3) x the 5 delimiter settings through StringIO; L = 5 in the quick tier, 9 (the statement's "
                         "bound, 68 million reads) in the thorough tier")
SETTINGS = {"any": "any", "lf": "\n", "cr": "\r", "crlf": "\r\n", "none": None}
RULE_TEXT = (
    "seeded scenarios: well-formed fixed files (1-3 fields of width 1-3, 0-6 records, alphabet a/b/blank/CR/LF/u-umlaut, "
    "actual delimiter per line, final delimiter present or not), optionally with one character deleted / inserted / "
    "replaced at an offset, or random strings up to length 12; read through StringIO, a chunked text stream or a path; "
    "30% with a prior reader abandoned after k rows in the same process; plus the bounded sweep in sweep_note. "
    "Non-trivial: text non-empty. Distinct: (setting, widths, source, chunk regime, kind of text, number of parses "
    "class, outcome class, prior reader class) and for the sweep each (text, widths, setting)."
)
ASSUMPTIONS = [
    "setting 'any' can be ambiguous (CR delimiter followed by a data LF vs. a CRLF delimiter); the statement names no "
    "tie-break, so when the maximal-munch parse is invalid but another parse exists either outcome is accepted",
    "returned rows must always be an element of the set of parses; a well-formed input under maximal munch must be "
    "accepted with exactly that parse",
]
COMPONENTS = {
    "real": ["cutplace.rowio.fixed_rows", "io.TextIOWrapper/BufferedReader/StringIO", "codecs"],
    "stub": ["SimFS/SimRaw (short reads)", "fixed text peer", "client that abandons a prior reader"],
}
PROBES_REQUIRED = ["via-cutplace.rows", "stream-handed-over-behind-a-preamble", "field-wider-than-io-buffers", "starts-with-u+feff", "push-back-width-1", "push-back-width-2+", "cr-at-eof-under-any", "crlf-split-across-chunks",
                   "short-last-record", "setting:any", "setting:lf", "setting:cr", "setting:crlf", "setting:none",
                   "prior-reader-abandoned-with-pending-push-back", "ambiguous-any", "source:path", "source:stream",
                   "source:stringio", "mutation:del", "mutation:ins", "mutation:sub", "multibyte-split"]


# ---- reference model ---------------------------------------------------------------------------
def parses(text, widths, setting, limit=64):
    """All parses of ``text``: list of lists of rows (each row a list of items of exact width)."""
    record = sum(widths)
    delimiters = {"any": ["\r\n", "\n", "\r"], "lf": ["\n"], "cr": ["\r"], "crlf": ["\r\n"], "none": [""]}[setting]
    results = []
    length = len(text)

    def split(position):
        row = []
        for width in widths:
            row.append(text[position:position + width])
            position += width
        return row

    def walk(position, rows):
        if len(results) >= limit:
            return
        if position == length:
            results.append(rows)
            return
        if position + record > length:
            return
        row = split(position)
        after = position + record
        if setting == "none":
            walk(after, rows + [row])
            return
        if after == length:
            results.append(rows + [row])
            return
        for delimiter in delimiters:
            if text.startswith(delimiter, after):
                walk(after + len(delimiter), rows + [row])

    walk(0, [])
    return results


def greedy(text, widths, setting):
    """Maximal-munch parse (CR followed by LF is always one delimiter under 'any') or None."""
    record = sum(widths)
    position, rows, length = 0, [], len(text)
    while position < length:
        if position + record > length:
            return None
        row = []
        for width in widths:
            row.append(text[position:position + width])
            position += width
        rows.append(row)
        if setting == "none" or position == length:
            continue
        if setting == "any":
            if text.startswith("\r\n", position):
                position += 2
            elif text[position] in "\r\n":
                position += 1
            else:
                return None
        else:
            delimiter = SETTINGS[setting]
            if not text.startswith(delimiter, position):
                return None
            position += len(delimiter)
    return rows


# ---- generation --------------------------------------------------------------------------------
def _render(rng, rows, widths, setting, alphabet):
    pieces = []
    for index, row in enumerate(rows):
        pieces.append("".join(row))
        last = index == len(rows) - 1
        if setting == "none":
            continue
        if last and rng.random() < 0.4:
            continue
        pieces.append(rng.choice(["\n", "\r", "\r\n"]) if setting == "any" else SETTINGS[setting])
    return "".join(pieces)


def generate(seed, tier):
    rng = core.stream(seed, "gen")
    swarm = core.stream(seed, "swarm")
    fault_rng = core.stream(seed, "fault")
    widths = [swarm.randint(1, 3) for _ in range(swarm.randint(1, 3))]
    if swarm.random() < 0.01:
        # a field wider than any buffer between the file and the reader
        widths[swarm.randrange(len(widths))] = swarm.choice([8191, 8193, 9000, 20000])
    setting = swarm.choice(sorted(SETTINGS))
    alphabet = swarm.choice([["a", "b"], ["a", "b", " "], ["a", "b", "\r", "\n"], ["a", " ", "\r", "\n", "ü"], ["a", "ü"],
                             ["a", "\x1a", "\x00", "\x0c"]])  # control characters are characters
    kind = swarm.choice(["well-formed", "well-formed", "mutated", "mutated", "random"])
    if kind == "random":
        text = "".join(rng.choice(["a", "b", "\r", "\n"]) for _ in range(rng.randint(0, 12)))
        mutation = None
    else:
        rows = [["".join(rng.choice(alphabet) for _ in range(width)) for width in widths] for _ in range(rng.randint(0, 6))]
        text = _render(rng, rows, widths, setting, alphabet)
        mutation = None
        if kind == "mutated" and text:
            operation = fault_rng.choice(["del", "ins", "sub"])
            offset = fault_rng.randrange(len(text) + (1 if operation == "ins" else 0))
            char = fault_rng.choice(["a", "\r", "\n", " ", "X"])
            mutation = {"op": operation, "at": offset, "char": char}
    if text and swarm.random() < 0.05:
        # U+FEFF is a character like any other: if the file starts with it, so does the first field
        text = "\ufeff" + text[1:]
    source = swarm.choice(["stringio", "stream", "path"])
    prior = None
    if swarm.random() < 0.3:
        prior_widths = [swarm.randint(1, 2) for _ in range(swarm.randint(1, 2))]
        prior_rows = [["".join(rng.choice(["a", "b"]) for _ in range(width)) for width in prior_widths]
                      for _ in range(rng.randint(1, 4))]
        prior = {"text": "\r".join("".join(row) for row in prior_rows) + rng.choice(["", "\r", "\n"]),
                 "widths": prior_widths, "setting": swarm.choice(["any", "any", "cr", "lf"]),
                 "stop_after": rng.randint(0, len(prior_rows)), "close": swarm.random() < 0.5,
                 "source": swarm.choice(["stringio", "stream", "path"]),
                 # the earlier data lived at the very path the judged data are stored at a moment later
                 "same_path": swarm.random() < 0.5}
    return {"io": simfs.IoConfig.draw(swarm), "text": text, "mutation": mutation, "widths": widths, "setting": setting,
            "source": source, "prior": prior, "kind": kind, "preamble": swarm.random() < 0.2,
            "via": swarm.choice(["rowio", "rowio", "reader"])}


def final_text(scenario):
    text = scenario["text"]
    mutation = scenario.get("mutation")
    if mutation:
        at = min(mutation["at"], len(text))
        if mutation["op"] == "del":
            text = text[:at] + text[at + 1:]
        elif mutation["op"] == "ins":
            text = text[:at] + mutation["char"] + text[at:]
        else:
            text = text[:at] + mutation["char"] + text[at + 1:]
    return text


# ---- sweep -------------------------------------------------------------------------------------
WIDTH_LISTS = [list(item) for count in (1, 2, 3) for item in itertools.product((1, 2, 3), repeat=count)]
ALPHABET = ["a", "b", "\r", "\n"]


def _sweep_length(tier):
    return 5 if tier == "quick" else 9


def _sweep_texts(tier):
    length = _sweep_length(tier)
    return sum(4 ** size for size in range(length + 1))


def sweep_size(tier):
    # one sweep scenario = one block of texts, each run against all width lists and settings
    total = _sweep_texts(tier)
    return (total + 19) // 20


def _nth_text(number):
    size = 0
    while number >= 4 ** size:
        number -= 4 ** size
        size += 1
    chars = []
    for _ in range(size):
        number, digit = divmod(number, 4)
        chars.append(ALPHABET[digit])
    return "".join(chars)


def sweep_slice(tier, start, count):
    total = _sweep_texts(tier)
    for block in range(start, start + count):
        first = block * 20
        yield {"property": ID, "sweep_block": [first, min(20, total - first)]}


# ---- execution ---------------------------------------------------------------------------------
def _open_source(fs, kind, text, name, preamble=False):
    if preamble and kind in ("stringio", "stream"):
        # the caller has consumed a banner line before handing the stream over: the data begin at its position
        return lib.stream_behind_preamble(fs, name, text.encode("utf-8"), "utf-8", kind)
    if kind == "stringio":
        return io.StringIO(text, newline="")
    fs.store(name, text.encode("utf-8"))
    if kind == "stream":
        return fs.text_stream(name, encoding="utf-8", newline="")
    return name


def _read(rowio, source, widths, setting, via="rowio"):
    if via == "reader":
        # the same reading through cutplace.rows under a CID of optional Text fields: nothing is rejected for its
        # content, so the rows are those of fixed_rows and a malformed stream ends in the same DataFormatError
        from cutplace import validio

        # property values are case-insensitive: LF, Crlf, ANY
        spelled = {0: setting, 1: setting.upper(), 2: setting.title()}[len(widths) % 3]
        cid_rows = [["d", "format", "fixed"], ["d", "encoding", "utf-8"], ["d", "line delimiter", spelled]]
        cid_rows += [["f", "f%d" % index, "", "X", str(width), "Text", ""] for index, width in enumerate(widths)]
        cid = lib.load_cid(cid_rows)
        return lib.call(lambda: lib.collect_rows(validio.rows(cid, source)))
    fields = [("f%d" % index, width) for index, width in enumerate(widths)]
    return lib.call(lambda: lib.collect_rows(rowio.fixed_rows(source, "utf-8", fields, SETTINGS[setting])))


def judge(text, widths, setting, status, value, features):
    """Apply the C13 oracle to one outcome; raises core.Violation."""
    from cutplace import errors

    all_parses = parses(text, widths, setting)
    munch = greedy(text, widths, setting)

    def short(value):
        shown = repr(value)
        return shown if len(shown) <= 400 else "%s...<%d characters>...%s" % (shown[:200], len(shown) - 300, shown[-100:])

    if status == "exc":
        if not isinstance(value, errors.DataFormatError):
            raise core.Violation("other-exception", features + ["class=" + type(value).__name__],
                                 "text=%s widths=%r setting=%s: %r" % (short(text), widths, setting, value))
        if munch is not None:
            raise core.Violation("well-formed-input-rejected", features,
                                 "text=%s widths=%r setting=%s is well-formed (%s) but: %s" % (short(text), widths, setting, short(munch), value))
        return "rejected", len(all_parses), munch
    rows = value
    if rows not in all_parses:
        bad_width = any(len(item) != width for row in rows for item, width in zip(row, widths)) or any(
            len(row) != len(widths) for row in rows)
        rule = "misaligned-rows" if bad_width else ("silently-repaired" if not all_parses else "rows-not-a-parse-of-input")
        raise core.Violation(rule, features, "text=%s widths=%r setting=%s returned %s; parses: %s" % (
            short(text), widths, setting, short(rows), short(all_parses[:3])))
    if munch is not None and rows != munch:
        raise core.Violation("not-the-maximal-munch-parse", features, "text=%s widths=%r setting=%s returned %s, expected %s" % (
            short(text), widths, setting, short(rows), short(munch)))
    return "accepted", len(all_parses), munch


def _execute_block(scenario):
    from cutplace import rowio

    result = core.Result()
    first, count = scenario["sweep_block"]
    digest_items = []
    sigs = []
    evaluations = 0
    for number in range(first, first + count):
        text = _nth_text(number)
        for widths in WIDTH_LISTS:
            for setting in SETTINGS:
                status, value = _read(rowio, io.StringIO(text, newline=""), widths, setting)
                evaluations += 1
                try:
                    verdict, parse_count, _ = judge(text, widths, setting, status, value, ["setting=" + setting])
                except core.Violation:
                    single = {"io": {"regime": "whole"}, "text": text, "mutation": None, "widths": widths, "setting": setting,
                              "source": "stringio", "prior": None, "kind": "sweep"}
                    scenario["_single"] = single
                    raise
                digest_items.append([text, widths, setting, verdict])
                if text:
                    sigs.append(core.short_hash([text, widths, setting]))
    result.weight = evaluations
    result.extra_sigs = sigs
    result.nontrivial = True
    result.schedule_sig = ["sweep-block", first]
    result.digest = core.digest(digest_items)
    result.ticks = evaluations
    return result


def execute(scenario):
    if "sweep_block" in scenario:
        return _execute_block(scenario)
    from cutplace import rowio

    result = core.Result()
    history = core.History()
    text = final_text(scenario)
    widths = scenario["widths"]
    setting = scenario["setting"]
    fs = simfs.SimFS(simfs.IoConfig.from_dict(scenario["io"]))
    prior = scenario.get("prior")
    keep = []
    prior_class = None
    with simfs.Seams(fs):
        if prior:
            prior_source = _open_source(fs, prior["source"], prior["text"], "data.txt" if prior.get("same_path") else "prior.txt")
            fields = [("p%d" % index, width) for index, width in enumerate(prior["widths"])]
            generator = rowio.fixed_rows(prior_source, "utf-8", fields, SETTINGS[prior["setting"]])
            taken = []
            for _ in range(prior["stop_after"]):
                status, value = lib.call(next, generator)
                if status == "exc":
                    break
                taken.append(list(value))
            history.add("client", "prior-read", {"taken": taken})
            if prior.get("close"):
                generator.close()
            else:
                keep.append(generator)
            prior_class = "closed" if prior.get("close") else "suspended"
            # a reader stopped right after a row whose lone-CR delimiter made it look one character ahead
            consumed = sum(len("".join(row)) for row in taken) + len(taken)
            if prior["setting"] == "any" and taken and consumed < len(prior["text"]) and prior["text"][consumed - 1] == "\r":
                result.probe("prior-reader-abandoned-with-pending-push-back")
        source = _open_source(fs, scenario["source"], text, "data.txt", scenario.get("preamble"))
        if scenario.get("preamble") and scenario["source"] != "path":
            result.probe("stream-handed-over-behind-a-preamble")
        status, value = _read(rowio, source, widths, setting, scenario.get("via", "rowio"))
        if scenario.get("via") == "reader":
            result.probe("via-cutplace.rows")
    keep.clear()
    history.add("client", "read", {"status": status, "value": value if status == "ok" else lib.error_summary(value)})

    features = ["setting=" + setting, "source=" + scenario["source"]] + (["via=reader"] if scenario.get("via") == "reader" else [])
    if prior:
        features.append("prior-reader")
    # reach
    result.probe("setting:" + setting)
    if max(widths) > 8000:
        result.probe("field-wider-than-io-buffers")
    if text.startswith("\ufeff"):
        result.probe("starts-with-u+feff")
    result.probe("source:" + scenario["source"])
    if scenario.get("mutation"):
        result.probe("mutation:" + scenario["mutation"]["op"])
    record = sum(widths)
    if setting == "any":
        for index, char in enumerate(text):
            if char == "\r" and index + 1 < len(text) and text[index + 1] != "\n":
                result.probe("push-back-width-1" if widths[0] == 1 else "push-back-width-2+")
        if text.endswith("\r"):
            result.probe("cr-at-eof-under-any")
    if setting != "none" and record and text and len(text.replace("\r", "").replace("\n", "")) % record:
        result.probe("short-last-record")
    if scenario["source"] != "stringio" and scenario["io"]["regime"] in ("1", "1..3") and "\r\n" in text:
        result.probe("crlf-split-across-chunks")
    if scenario["source"] != "stringio" and scenario["io"]["regime"] in ("1", "1..3") and "ü" in text:
        result.probe("multibyte-split")
    try:
        verdict, parse_count, munch = judge(text, widths, setting, status, value, features)
    finally:
        result.ticks = history.ticks + fs.ticks
        result.digest = history.digest()
    if parse_count > 1 or (parse_count >= 1 and munch is None):
        result.probe("ambiguous-any")
    result.nontrivial = bool(text)
    result.schedule_sig = [setting, widths, scenario["source"], scenario["io"]["regime"], scenario.get("kind"),
                           min(parse_count, 2), verdict, prior_class, len(text)]
    result.trace = {"text": text, "widths": widths, "setting": setting, "verdict": verdict,
                    "rows": value if status == "ok" else None, "parses": parse_count}
    return result


def candidates(scenario):
    if "sweep_block" in scenario:
        if "_single" in scenario:
            yield scenario["_single"]
        else:
            first, count = scenario["sweep_block"]
            for number in range(first, first + count):
                for widths in WIDTH_LISTS:
                    for setting in SETTINGS:
                        yield {"io": {"regime": "whole"}, "text": _nth_text(number), "mutation": None, "widths": widths,
                               "setting": setting, "source": "stringio", "prior": None, "kind": "sweep"}
        return
    if scenario.get("mutation"):
        yield dict(copy.deepcopy(scenario), text=final_text(scenario), mutation=None)
    if scenario.get("prior"):
        yield lib.with_value(scenario, ["prior"], None)
        prior = scenario["prior"]
        if prior["stop_after"] > 0:
            yield lib.with_value(scenario, ["prior", "stop_after"], prior["stop_after"] - 1)
        if prior["source"] != "stringio":
            yield lib.with_value(scenario, ["prior", "source"], "stringio")
        for index in range(len(prior["text"])):
            yield lib.with_value(scenario, ["prior", "text"], prior["text"][:index] + prior["text"][index + 1:])
    text = scenario["text"]
    size = len(text) // 2
    while size >= 1:
        for start in range(0, len(text), size):
            yield lib.with_value(scenario, ["text"], text[:start] + text[start + size:])
        size //= 2
    for candidate in lib.io_candidates(scenario):
        yield candidate
    if scenario["source"] != "stringio":
        yield lib.with_value(scenario, ["source"], "stringio")
    if len(scenario["widths"]) > 1:
        for index in range(len(scenario["widths"])):
            yield lib.with_value(scenario, ["widths"], scenario["widths"][:index] + scenario["widths"][index + 1:])
    for index, width in enumerate(scenario["widths"]):
        if width > 1:
            widths = list(scenario["widths"])
            widths[index] = width - 1
            yield lib.with_value(scenario, ["widths"], widths)
    for index, char in enumerate(text):
        if char not in ("a", "\r", "\n"):
            yield lib.with_value(scenario, ["text"], text[:index] + "a" + text[index + 1:])
