"""C06 — error modes agree with each other and account for every row; a malformed container stops
reading with a data-format error in every mode.

The same stored bytes are read three times (yield / continue / raise) under three different chunk
schedules, API flavours and sources.  Fault-free batch: every read is checked against the reference
model and the three reads against each other.  Fault batch: exactly one container fault placed at a
row boundary / inside row k (unterminated quote, undecodable bytes, short fixed record, wrong
delimiter, truncated / damaged archive); read-ahead moves the point where the fault surfaces, so
the oracle is prefix based."""
import copy
import io

from sim import core, lib, simfs, tabular
from sim.peers import odf, xlsx

ID = "C06"
LEVEL = "exploration"
QUICK_RUNS = 12000
BATCH = 300
MODES = ["yield", "continue", "raise"]
RULE_TEXT = (
    "seeded scenarios: CID (1-4 fields, optional IsUnique / DistinctCount) x table 0-8 rows with rejected cells and "
    "ragged rows x 4 formats; the same bytes read in the three error modes, each read with its own chunk schedule, "
    "API (Reader.rows / cutplace.rows) and source (path / chunked stream / StringIO); about 40% of the scenarios carry "
    "exactly one container fault at row k. Non-trivial: >= 1 data row and, in the fault batch, the fault fired inside "
    "an in-flight read in all three modes. Distinct: (format, fault kind and row class, per-read (mode, api, source, "
    "chunk regime), expected item kinds)."
)
ASSUMPTIONS = [
    "under a container fault the rows produced before the DataFormatError are a prefix of what the fault-free rows in "
    "front of the fault would give; how long the prefix is depends on read-ahead and is not fixed",
    "raise mode may stop at an ordinary rejection in front of the fault; that is its documented presentation",
    "bit-exact agreement between modes is required for rows, error class, location and message",
    "per-cell verdicts come from the real field on a private Cid",
]
COMPONENTS = {
    "real": ["cutplace.validio", "cutplace.rowio (all four readers)", "cutplace.interface/fields/checks", "csv", "codecs",
             "io.TextIOWrapper/BufferedReader", "zipfile", "zlib", "xml.etree.ElementTree", "xlrd"],
    "stub": ["SimFS/SimRaw", "text / ODF / XLSX peers", "fault injector", "stepping client"],
}
PROBES_REQUIRED = ["readers-created-up-front", "fault:open-quote", "fault:undecodable", "fault:short-record", "fault:wrong-delimiter",
                   "fault:truncate", "fault:member-missing", "fault:xml-cut", "fault:not-a-zip", "fault:corrupt-member", "fault-in-first-row",
                   "fault-in-last-row", "fault-inside-header", "rejection-before-fault", "end-check-fails",
                   "batch:fault-free", "batch:fault"]
FAULTS = {
    "delimited": ["open-quote", "undecodable"],
    "fixed": ["short-record", "wrong-delimiter", "undecodable"],
    "ods": ["truncate", "member-missing", "xml-cut", "not-a-zip", "corrupt-member"],
    "excel": ["truncate", "not-a-zip", "corrupt-member"],
}


def generate(seed, tier):
    rng = core.stream(seed, "gen")
    swarm = core.stream(seed, "swarm")
    fault_rng = core.stream(seed, "fault")
    fmt = swarm.choice(tabular.FORMATS)
    fields = tabular.draw_fields(swarm, fmt, swarm.randint(1, 4))
    names = [field["name"] for field in fields]
    spec = {"format": fmt, "header": swarm.choice([0, 0, 1, 2]), "sep": swarm.choice([":", "...", "…"]),
            "fields": fields, "checks": []}
    if fmt in ("delimited", "fixed"):
        spec["line_delimiter"] = swarm.choice(["lf", "crlf", "cr", "any"] + (["none"] if fmt == "fixed" else []))
        if spec["line_delimiter"] == "any":
            spec["eol"] = swarm.choice(["\n", "\r", "\r\n"])
        spec["encoding"] = swarm.choice(["utf-8", "utf-8", "ascii"])
        if fmt == "delimited" and swarm.random() < 0.4:
            # an escape character that differs from the quote character (no cell of this workload needs escaping)
            spec["props"] = [["escape character", "\\"]]
    if swarm.random() < 0.4:
        spec["checks"].append(["uniq", "IsUnique", swarm.choice(names)])
    if swarm.random() < 0.4:
        spec["checks"].append(["dc", "DistinctCount", "%s %s %d" % (swarm.choice(names), swarm.choice(["<=", ">=", "=="]),
                                                                  swarm.randint(1, 3))])
    table = tabular.draw_table(rng, spec, 8, bad_rate=swarm.choice([0.0, 0.1, 0.3]))
    reads = []
    for mode in MODES:
        source = "path"
        if fmt in ("delimited", "fixed"):
            source = swarm.choice(["path", "stream", "stringio"])
        reads.append({"mode": mode, "api": swarm.choice(["Reader", "rows"]), "source": source,
                      "io": simfs.IoConfig.draw(swarm)})
    fault = None
    if swarm.random() < 0.4:
        kind = fault_rng.choice(FAULTS[fmt])
        if fmt in ("delimited", "fixed"):
            if not table:
                table.append([tabular.FIELD_KINDS[field["type"]][2][0] for field in fields])
            table = [row if row else [tabular.FIELD_KINDS[field["type"]][2][0] for field in fields] for row in table]
            if kind == "wrong-delimiter" and spec["line_delimiter"] == "none":
                kind = "short-record"
            fault = {"kind": kind, "row": fault_rng.randint(1, len(table)), "cut": fault_rng.randint(1, 3)}
            if kind == "undecodable":
                for read in reads:
                    if read["source"] == "stringio":
                        read["source"] = "stream"
        else:
            fault = {"kind": kind, "at": fault_rng.random()}
    limit = None
    if fault is None and swarm.random() < 0.25:
        limit = swarm.randint(0, len(table) + 1)  # rows beyond the validation limit are still data rows (and counted)
    return {"limit": limit, "cid": spec, "table": table, "reads": reads, "shared_cid": swarm.random() < 0.5,
            # the Reader has been iterated before (k rows, or -1: completely): the counters are those of the judged pass
            "prepass": swarm.choice([None, None, None, None, -1, 1, 2]),
            "create_up_front": swarm.random() < 0.4, "fault": fault,
            "ods_features": sorted(swarm.sample(["colruns", "colstyle", "stored", "rowruns", "links"], swarm.randint(0, 2)))}


def _eol(spec):
    return {"lf": "\n", "cr": "\r", "crlf": "\r\n", "any": spec.get("eol", "\n"), "none": ""}[spec.get("line_delimiter", "lf")]


def stored_bytes(scenario):
    """(bytes to store, number of intact rows in front of the fault or None without fault)."""
    spec, table, fault = scenario["cid"], scenario["table"], scenario.get("fault")
    fmt = spec["format"]
    fs = simfs.SimFS()
    path = tabular.data_path(spec)
    if fault is None:
        return tabular.store(fs, path, spec, table, features=scenario.get("ods_features")), None
    kind = fault["kind"]
    if fmt in ("delimited", "fixed"):
        encoding = spec.get("encoding", "utf-8")
        eol = _eol(spec)
        row_number = min(fault["row"], len(table))
        before = table[: row_number - 1]
        if fmt == "delimited":
            lines = [lib.render_delimited([row], ",", '"', eol) for row in table]
        else:
            lines = [lib.render_fixed([row], tabular.widths(spec), eol) for row in table]
        head = "".join(lines[: row_number - 1]).encode(encoding)
        line = lines[row_number - 1]
        tail = "".join(lines[row_number:]).encode(encoding)
        if kind == "open-quote":
            # a quote is opened and never closed: no other quote character may follow in this line (three quotes
            # in a row are not an unterminated quote in every dialect)
            # and the file is torn right there (a later quote character would close it in some dialects)
            data = head + ('"' + line.replace('"', "")).encode(encoding)
        elif kind == "undecodable":
            data = head + b"\xff" + line.encode(encoding) + tail
        elif kind == "wrong-delimiter":
            body = line[: len(line) - len(eol)] if eol else line
            data = head + (body + "X").encode(encoding) + tail
        elif kind == "short-record":
            record = sum(tabular.widths(spec))
            cut = max(1, min(fault.get("cut", 1), record - 1)) if record > 1 else 1
            body = line[: len(line) - len(eol)] if eol else line
            # the file ends inside record k: everything behind it is lost (torn write by the producer)
            data = head + body[: len(body) - cut].encode(encoding)
            if record == 1:
                # a one-character record cannot be cut short; lose its delimiter and glue garbage instead
                data = head + (body + "X").encode(encoding) + tail if eol else None
        else:
            raise ValueError(kind)
        return data, len(before)
    if fmt == "ods":
        sheets = [table]
        features = set(scenario.get("ods_features") or ())
        if kind == "xml-cut":
            text = '<?xml version="1.0" encoding="UTF-8"?>\n' + odf.content_xml(sheets, features)
            boundaries = [index for index, char in enumerate(text) if char == "<" and index > 40]
            cut = boundaries[min(len(boundaries) - 1, int(fault["at"] * len(boundaries)))]
            return odf.archive(text[:cut].encode("utf-8"), features), 0
        data, _, _ = odf.encode(sheets, features)
        if kind == "member-missing":
            text = '<?xml version="1.0" encoding="UTF-8"?>\n' + odf.content_xml(sheets, features)
            return odf.archive(text.encode("utf-8"), features, members={"content.xml": None}), 0
    else:
        data = xlsx.encode([xlsx.text_table(table)])
    if kind == "truncate":
        cut = 1 + int(fault["at"] * (len(data) - 2))
        return data[:cut], 0
    if kind == "corrupt-member":
        # stored bytes of the member holding the table are damaged; the zip directory stays intact
        import zipfile

        name = "content.xml" if fmt == "ods" else "xl/worksheets/sheet1.xml"
        with zipfile.ZipFile(io.BytesIO(data)) as archive:
            info = archive.getinfo(name)
        start = info.header_offset + 30 + len(info.filename.encode("utf-8")) + len(info.extra)
        position = start + int(fault["at"] * (info.compress_size - 1))
        damaged = bytearray(data)
        for offset in range(position, min(position + 3, start + info.compress_size)):
            damaged[offset] ^= 0xFF
        return bytes(damaged), 0
    if kind == "not-a-zip":
        return b"this is not a zip archive at all\n" * (1 + int(fault["at"] * 5)), 0
    raise ValueError(kind)


def _presented(items, mode):
    if mode == "yield":
        return items
    if mode == "continue":
        return [item for item in items if item[0] == "row"]
    first = next((index for index, item in enumerate(items) if item[0] == "err"), None)
    return items if first is None else items[:first]


def execute(scenario):
    result = core.Result()
    history = core.History()
    spec = scenario["cid"]
    fmt = spec["format"]
    fault = scenario.get("fault")
    data, intact_rows = stored_bytes(scenario)
    if data is None:
        fault = None
        data, intact_rows = stored_bytes(dict(scenario, fault=None))
    path = tabular.data_path(spec)
    table = scenario["table"]
    limit = scenario.get("limit") if fault is None else None
    if fault is None:
        model = tabular.RefReader(spec, tabular.as_read(spec, table), until=limit)
    elif fault["kind"] == "corrupt-member":
        # decided after the reads: damage to padding bits behind the end of the compressed stream is a legal no-op
        model = tabular.RefReader(spec, tabular.as_read(spec, table))
    else:
        model = tabular.RefReader(spec, tabular.as_read(spec, table[:intact_rows]) if fmt in ("delimited", "fixed") else [])
    expected = model.items()
    result.probe("batch:" + ("fault" if fault else "fault-free"))
    features = ["format=" + fmt]
    if fault:
        features.append("fault=" + fault["kind"])
    shared_cid = None
    runs = {}
    total_ticks = 0
    fired = 0
    up_front = bool(scenario.get("shared_cid") and scenario.get("create_up_front"))
    prepared = {}

    def prepare(read, cid, fs):
        file_name = path
        if read["source"] == "stream":
            source = fs.text_stream(path, encoding=spec.get("encoding", "utf-8"), newline="")
        elif read["source"] == "stringio":
            source = io.StringIO(data.decode(spec.get("encoding", "utf-8")), newline="")
            file_name = "<io>"
        else:
            source = path
        return lib.ReadRun(cid, source, read["api"], read["mode"], until=limit), file_name

    if up_front:
        # the three readers are constructed first on one Cid and consumed one after the other
        result.probe("readers-created-up-front")
        for read in scenario["reads"]:
            fs = simfs.SimFS(simfs.IoConfig.from_dict(read["io"]))
            fs.store(path, data)
            with simfs.Seams(fs):
                if shared_cid is None:
                    shared_cid = lib.load_cid(tabular.cid_rows(spec))
                prepared[read["mode"]] = (fs,) + prepare(read, shared_cid, fs)
    for read in scenario["reads"]:
        mode = read["mode"]
        if up_front:
            fs, run, file_name = prepared[mode]
        else:
            fs = simfs.SimFS(simfs.IoConfig.from_dict(read["io"]))
            fs.store(path, data)
        with simfs.Seams(fs):
            if not up_front:
                if scenario.get("shared_cid") and shared_cid is not None:
                    cid = shared_cid
                else:
                    cid = lib.load_cid(tabular.cid_rows(spec))
                    shared_cid = cid
                run, file_name = prepare(read, cid, fs)
            prepass = scenario.get("prepass")
            if prepass is not None and fault is None and read["api"] == "Reader" and read["source"] == "path":
                def first_pass(run=run, prepass=prepass):
                    taken = 0
                    for _ in run.reader.rows():
                        taken += 1
                        if prepass >= 0 and taken >= prepass:
                            break

                lib.call(first_pass)
                run.generator = run.reader.rows()
                result.probe("second-pass-on-the-same-reader")
            while run.step():
                pass
            run.close()
        runs[mode] = (run, file_name, read["api"])
        outcome = run.outcome()
        history.add("client", "read", {"mode": mode, "api": read["api"], "source": read["source"], "outcome": outcome})
        total_ticks += fs.ticks
        if fault and run.raised is not None:
            fired += 1

    # reach
    if fault:
        if fired == 3:
            result.fault(fault["kind"])
            result.probe("fault:" + fault["kind"])
        if fmt in ("delimited", "fixed"):
            row_number = min(fault["row"], len(table))
            if row_number == 1:
                result.probe("fault-in-first-row")
            if row_number == len(table):
                result.probe("fault-in-last-row")
            if row_number <= spec.get("header", 0):
                result.probe("fault-inside-header")
            if any(item[0] == "err" for item in expected):
                result.probe("rejection-before-fault")
    if model.end_error() is not None:
        result.probe("end-check-fails")
    result.nontrivial = (len(expected) >= 1 and not fault) or (bool(fault) and fired == 3)
    result.schedule_sig = [fmt, fault["kind"] if fault else None,
                           None if not fault or "row" not in fault else ("first" if fault["row"] == 1 else "later"),
                           [[read["mode"], read["api"], read["source"], read["io"]["regime"]] for read in scenario["reads"]],
                           [item[0] if item[0] == "row" else item[1]["kind"] for item in expected]]
    result.ticks = history.ticks + total_ticks
    result.digest = history.digest()
    result.trace = {"expected": expected[:6], "fault": fault,
                    "reads": [{"mode": mode, "items": runs[mode][0].outcome()["items"][:6],
                               "raised": runs[mode][0].outcome()["raised"]} for mode in MODES]}

    if fault is not None and fault["kind"] == "corrupt-member":
        if all(runs[mode][0].raised is None or not lib.error_summary(runs[mode][0].raised).get("is_format_error")
               for mode in MODES):
            # the damaged bytes were not part of the compressed stream proper: the archive is intact, and then it has
            # to be read like the intact one
            result.probe("byte-damage-without-effect")
            fault = None
        else:
            model = tabular.RefReader(spec, [])
            expected = model.items()
    if fault is None:
        for mode in MODES:
            run, file_name, api = runs[mode]
            tabular.verify_run(model, run, mode, api, file_name, features + ["mode=" + mode])
        # model-independent cross-mode agreement (same source name needed for identical messages)
        yield_run = runs["yield"][0]
        continue_run = runs["continue"][0]
        raise_run = runs["raise"][0]
        rows_of_yield = [item for item in yield_run.items if item[0] == "row"]
        if continue_run.items != rows_of_yield:
            raise core.Violation("continue-differs-from-accepted-rows-of-yield", features, "%r vs %r" % (
                continue_run.items[:5], rows_of_yield[:5]))
        first = next((index for index, item in enumerate(yield_run.items) if item[0] == "err"), None)
        if first is not None and raise_run.raised is not None and runs["yield"][1] == runs["raise"][1]:
            wanted = yield_run.items[first][1]
            actual = lib.error_summary(raise_run.raised)
            if raise_run.items != yield_run.items[:first] or actual != wanted:
                raise core.Violation("raise-differs-from-first-rejection-of-yield", features + ["api=" + runs["raise"][2]],
                                     "yield item %r vs raised %r" % (wanted, actual))
        return result

    for mode in MODES:
        run, file_name, api = runs[mode]
        more = features + ["mode=" + mode]
        presented = _presented(expected, mode)
        produced = run.items
        if len(produced) > len(presented):
            raise core.Violation("items-beyond-container-fault", more, "%d items produced, at most %d rows are intact: %r" % (
                len(produced), len(presented), produced[len(presented):][:2]))
        difference = tabular.compare_items(presented[: len(produced)], produced, file_name)
        if difference is not None:
            rule, extra, detail = difference
            raise core.Violation(rule, more + extra, detail)
        if run.raised is None:
            raise core.Violation("container-fault-clean-end", more, "reading a malformed container ended normally after %d "
                                 "items" % len(produced))
        summary = lib.error_summary(run.raised)
        if summary.get("is_format_error"):
            continue
        first = next((index for index, item in enumerate(expected) if item[0] == "err"), None)
        if mode == "raise" and first is not None and len(produced) == first:
            if tabular.item_mismatch(expected[first], ["err", summary], file_name) is None:
                continue
        raise core.Violation("container-fault-not-a-data-format-error", more + ["class=" + summary["class"]],
                             "raised %r" % (summary,))
    return result


def candidates(scenario):
    for candidate in lib.drop_candidates(scenario, ["table"], minimum=1 if scenario.get("fault") else 0):
        if candidate.get("fault") and "row" in candidate["fault"]:
            candidate["fault"]["row"] = max(1, min(candidate["fault"]["row"], len(candidate["table"])))
        yield candidate
    for candidate in lib.drop_candidates(scenario, ["cid", "checks"]):
        yield candidate
    fields = scenario["cid"]["fields"]
    if len(fields) > 1:
        for index in range(len(fields)):
            name = fields[index]["name"]
            if any(name in check[2] for check in scenario["cid"]["checks"]):
                continue
            candidate = copy.deepcopy(scenario)
            del candidate["cid"]["fields"][index]
            for row in candidate["table"]:
                if index < len(row):
                    del row[index]
            yield candidate
    for index, read in enumerate(scenario["reads"]):
        for candidate in lib.io_candidates(read):
            yield lib.with_value(scenario, ["reads", index], candidate)
        if read["source"] != "path":
            yield lib.with_value(scenario, ["reads", index, "source"], "path")
        if read["api"] != "Reader":
            yield lib.with_value(scenario, ["reads", index, "api"], "Reader")
    if scenario.get("limit") is not None:
        yield lib.with_value(scenario, ["limit"], None)
    if scenario.get("create_up_front"):
        yield lib.with_value(scenario, ["create_up_front"], False)
    if scenario.get("shared_cid"):
        yield lib.with_value(scenario, ["shared_cid"], False)
    for key, value in (("header", 0), ("sep", ":"), ("line_delimiter", "lf"), ("encoding", "utf-8")):
        if key in scenario["cid"] and scenario["cid"].get(key) != value:
            yield lib.with_value(scenario, ["cid", key], value)
    if scenario["cid"].get("props"):
        yield lib.with_value(scenario, ["cid", "props"], [])
    if scenario.get("ods_features"):
        yield lib.with_value(scenario, ["ods_features"], [])
    if scenario.get("fault") and scenario["fault"].get("row", 1) > 1:
        yield lib.with_value(scenario, ["fault", "row"], scenario["fault"]["row"] - 1)
    for row_index, row in enumerate(scenario["table"]):
        for cell_index, cell in enumerate(row):
            if cell_index < len(fields):
                good = tabular.FIELD_KINDS[fields[cell_index]["type"]][2][0]
                if cell != good:
                    candidate = copy.deepcopy(scenario)
                    candidate["table"][row_index][cell_index] = good
                    yield candidate
