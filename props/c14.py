"""C14 — a validating writer emits only conforming rows; its output validates again.

Workload: delimited and fixed CIDs (every line-delimiter setting incl. any / none), header 0-1,
IsUnique + DistinctCount; op sequences of 0-8 ``write_row`` mixing accepted rows, field rejections,
wrong item counts and duplicates, then ``close``.  Schedule / fault space: target StringIO (output
inspected after *every* op) or a SimFS path (short writes through BufferedWriter; inspected after
close); ambient ``os.linesep`` in {LF, CRLF}; bad rows between accepted ones.  Oracle: reference
model of acceptance on the unpadded values + conservation: exactly one record appended per accepted
row, nothing for a rejected one; the final output read back under a fresh copy of the CID accepts
every data row and returns the written values modulo padding."""
import copy
import io

from sim import core, lib, simfs, tabular

ID = "C14"
LEVEL = "exploration"
QUICK_RUNS = 20000
BATCH = 500
RULE_TEXT = (
    "seeded histories: CID (key Choice, Integer, Text; IsUnique and/or DistinctCount; delimited or fixed with line "
    "delimiter lf/cr/crlf/any/none; header 0-1) x 0-8 write_row ops (accepted, bad cell, wrong item count, duplicate) "
    "+ close; target StringIO or chunked SimFS path; os.linesep LF or CRLF. Non-trivial: >= 2 ops with at least one "
    "accepted and one rejected data row. Distinct: (format, line delimiter, linesep, target, header, sequence of "
    "expected op verdict kinds, end verdict)."
)
ASSUMPTIONS = [
    "header rows (the first 'header' written rows) are emitted unvalidated by design; the workload keeps them well-shaped",
    "for delimited output the bytes of the line terminator are not asserted (the statement's parenthesis is about "
    "fixed-width); the appended text must parse back to exactly the written row",
    "acceptance is modelled on the values the caller passed (unpadded); per-cell verdicts come from the real field",
    "a row rejected only because the target file's encoding cannot store it has already been seen by the checks "
    "(validate first, write second): nothing of it may reach the output, but its key and values count",
]
COMPONENTS = {
    "real": ["cutplace.validio.Writer", "cutplace.rowio.DelimitedRowWriter/FixedRowWriter/delimited_rows/fixed_rows",
             "cutplace.checks", "csv", "io.TextIOWrapper/BufferedWriter/StringIO"],
    "stub": ["SimFS/SimRaw (short writes)", "os.linesep seam", "client"],
}
PROBES_REQUIRED = ["with-block-left-by-a-rejection", "same-row-object-written-again", "cid-given-as-path", "write_rows-with-one-shot-iterator", "unencodable-row", "write_rows-batch", "rejection-then-acceptance", "duplicate-of-rejected-row", "wrong-item-count", "bad-cell", "duplicate",
                   "linesep-crlf-with-any", "delimiter:none", "delimiter:any", "delimiter:crlf", "target:path",
                   "target:stream", "header-row-written", "end-check-fails"]
EOLS = {"lf": "\n", "cr": "\r", "crlf": "\r\n"}


def generate(seed, tier):
    rng = core.stream(seed, "gen")
    swarm = core.stream(seed, "swarm")
    fmt = swarm.choice(["delimited", "fixed"])
    fields = [{"name": "k", "type": "Choice", "rule": "a,b,c", "width": 1},
              {"name": "n", "type": "Integer", "rule": "0{sep}99", "width": 2},
              {"name": "t", "type": "Text", "width": 3}]
    if swarm.random() < 0.25:
        fields.reverse()  # the free-text field comes first
    fields = fields[: swarm.randint(1, 3)]
    names = [field["name"] for field in fields]
    checks = []
    if swarm.random() < 0.8:
        checks.append(["uniq", "IsUnique", ", ".join(names[: swarm.randint(1, min(2, len(names)))])])
    if swarm.random() < 0.5:
        checks.append(["dc", "DistinctCount", "%s %s %d" % (swarm.choice(names), swarm.choice(["<=", ">=", "!="]),
                                                           swarm.randint(1, 3))])
    if swarm.random() < 0.3:
        checks.reverse()
    spec = {"format": fmt, "header": swarm.choice([0, 0, 1]), "sep": swarm.choice([":", "...", "…"]), "fields": fields,
            "checks": checks,
            "line_delimiter": swarm.choice(["lf", "cr", "crlf", "any"] + (["none"] if fmt == "fixed" else []))}
    pools = {"k": (["a", "b", "c"], ["x", ""]), "n": (["1", "7", "42"], ["z", "100", "-1"]),
             "t": (["x", "yz", "abc"] + (["a,b", "a\rb", "a\nb", "\r\n", "\ufeffx", "\x00"] if fmt == "delimited" else []), ["abcd", ""])}
    if swarm.random() < 0.25:
        # every field may be empty: a row of empty values only is a row like any other
        for field in fields:
            field["empty"] = True
        for name in pools:
            pools[name][0].extend(["", ""])
    if fmt == "fixed" and swarm.random() < 0.08:
        # the blank is not among the allowed characters: what about the padding?
        spec["props"] = [["allowed characters", "33...126"]]
    if fmt == "delimited" and swarm.random() < 0.08:
        # blanks behind the item delimiter are skipped on reading: what about values that start with one?
        spec["props"] = [["skip initial space", "true"]]
        pools["t"][0].extend([" y", " y"])
    spec["encoding"] = swarm.choice(["utf-8", "utf-8", "ascii", "iso-8859-1"])
    if spec["encoding"] != "utf-8":
        # characters the target encoding cannot store: such a row passes validation but cannot be written
        pools["t"][0].extend(["ü", "€"])
    if fmt == "fixed":
        # values may already carry (part of) their padding
        pools["n"][0].append("7 ")
        pools["t"][0].extend(["x ", " x"])  # blanks in front are part of the value, blanks behind part of the padding
    rows = []
    for _ in range(rng.randint(0, 8)):
        row = []
        for name in names:
            good, bad = pools[name]
            row.append(rng.choice(bad) if rng.random() < 0.12 else rng.choice(good[:2] if name == "k" else good))
        if rng.random() < 0.1:
            row = row[:-1] if rng.random() < 0.5 else row + ["a"]
        if rows and rng.random() < 0.2:
            row = list(rng.choice(rows))
        if row and rng.random() < 0.04 and not spec["header"]:
            # a value that is no text at all, as a row fetched from a database may hold it
            row[rng.randrange(len(row))] = rng.choice([None, 0, False, 7])
        rows.append(row)
    if spec["header"] and rows:
        rows[0] = [field["name"].upper()[: field["width"]] for field in fields]
    config = simfs.IoConfig.draw(swarm)
    batches = []
    remaining = len(rows)
    use_write_rows = swarm.random() < 0.4
    while remaining:
        size = min(remaining, rng.randint(1, 3)) if use_write_rows else 1
        batches.append(size)
        remaining -= size
    return {"io": config, "cid": spec, "rows": rows, "batches": batches, "target": swarm.choice(["stream", "path"]),
            "close": True, "cid_as_path": swarm.random() < 0.2, "rows_as_iterator": swarm.random() < 0.5,
            # the caller keeps one list object per distinct row and hands the same object over again for a repeated row
            "reuse_row_objects": swarm.random() < 0.4, "target_exists": swarm.random() < 0.3,
            "with_block": swarm.random() < 0.2}


def _encodable(row, encoding):
    try:
        "".join(row).encode(encoding)
        return True
    except UnicodeEncodeError:
        return False


def _expected_record(spec, row, linesep):
    if spec["format"] == "fixed":
        text = "".join(cell.ljust(width) for cell, width in zip(row, tabular.widths(spec)))
        delimiter = spec["line_delimiter"]
        if delimiter == "any":
            return text + linesep
        if delimiter == "none":
            return text
        return text + EOLS[delimiter]
    return None


def _execute_with_block(scenario):
    """The writer used as a context manager: the first rejected row leaves the block as an exception.  What was
    accepted before it must be in the output once the block is left, however it is left."""
    from cutplace import errors, rowio, validio

    result = core.Result()
    history = core.History()
    spec = scenario["cid"]
    fmt = spec["format"]
    rows = scenario["rows"]
    header = spec.get("header", 0)
    fs = simfs.SimFS(simfs.IoConfig.from_dict(scenario["io"]))
    features = ["format=" + fmt, "with-block"]
    to_path = scenario.get("target") == "path"
    with simfs.Seams(fs):
        cid = lib.load_cid(tabular.cid_rows(spec))
        stream = io.StringIO(newline="")
        target = "out.txt" if to_path else stream
        written = []

        def job():
            with validio.Writer(cid, target) as writer:
                for row in rows:
                    writer.write_row(list(row))
                    written.append(row)

        status, value = lib.call(job)
        # the model: header rows pass, data rows up to the first one that is rejected
        expected, stopped_by = list(rows[:header]), None
        for index, row in enumerate(rows[header:]):
            item = tabular.RefReader(dict(spec, header=0), rows[header:header + index + 1]).items()[-1]
            if item[0] == "err" or (to_path and not _encodable(row, spec.get("encoding", "utf-8"))):
                stopped_by = row
                break
            expected.append(row)
        history.add("client", "with-block", {"status": status, "written": written,
                                             "error": None if status == "ok" else lib.error_summary(value)})
        result.probe("writer-as-context-manager")
        if stopped_by is not None:
            result.probe("with-block-left-by-a-rejection")
            if status == "ok":
                raise core.Violation("non-conforming-row-written", features, "row %r should have been rejected" % (stopped_by,))
            if not isinstance(value, errors.CutplaceError):
                raise core.Violation("rejection-is-not-a-cutplace-error", features + ["class=" + type(value).__name__], repr(value))
        elif status == "exc" and not isinstance(value, errors.CheckError):
            raise core.Violation("conforming-row-rejected", features, "rows %r: %r" % (rows, lib.error_summary(value)))
        if to_path:
            data = fs.files.get("out.txt")
            if data is None:
                raise core.Violation("output-did-not-reach-the-target", features + ["target=path"], "nothing was stored at the target path")
            text = bytes(data).decode(spec.get("encoding", "utf-8"))
        else:
            text = stream.getvalue() if not stream.closed else None
            if text is None:
                raise core.Violation("caller-stream-closed-by-cutplace", features, "the target stream is closed after the block")
        status, parsed = lib.call(lambda: list(
            rowio.delimited_rows(io.StringIO(text, newline=""), cid.data_format) if fmt == "delimited" else
            rowio.fixed_rows(io.StringIO(text, newline=""), "utf-8", [(field["name"], width) for field, width in zip(
                spec["fields"], tabular.widths(spec))], cid.data_format.line_delimiter)))
        wanted = expected if fmt == "delimited" else [[cell.ljust(width) for cell, width in zip(row, tabular.widths(spec))]
                                                       for row in expected]
    result.nontrivial = len(rows) > header
    result.schedule_sig = [fmt, "with-block", scenario.get("target"), stopped_by is not None, len(expected)]
    result.ticks = history.ticks + fs.ticks
    result.digest = history.digest()
    result.trace = {"rows": rows[:6], "output": text[:200]}
    if status == "exc" or parsed != wanted:
        raise core.Violation("output-after-with-block-differs", features + ["target=" + str(scenario.get("target"))],
                             "accepted before the block was left: %r; output %r reads as %r" % (
                                 expected, text, parsed if status == "ok" else lib.error_summary(parsed)))
    return result


def execute(scenario):
    from cutplace import errors, rowio

    if scenario.get("with_block") and not scenario["cid"].get("props") and \
            all(len(row) == len(scenario["cid"]["fields"]) and all(isinstance(cell, str) for cell in row)
                for row in scenario["rows"]):
        # (the two known defects that need a data format property are judged in the plain flow only; rows of the
        # wrong length are a precondition violation of write_row(), which the plain flow offers one by one)
        return _execute_with_block(scenario)
    result = core.Result()
    history = core.History()
    spec = scenario["cid"]
    fmt = spec["format"]
    rows = scenario["rows"]
    header = spec.get("header", 0)
    fs = simfs.SimFS(simfs.IoConfig.from_dict(scenario["io"]))
    linesep = fs.config.linesep
    features = ["format=" + fmt, "delimiter=" + spec["line_delimiter"]]
    skips_blanks = ["skip initial space", "true"] in spec.get("props", [])
    blank_not_allowed = ["allowed characters", "33...126"] in spec.get("props", [])
    if skips_blanks and any(isinstance(cell, str) and cell.startswith(" ") for row in rows for cell in row):
        # one culprit explains whatever goes wrong with such values, so it is the whole signature
        features = ["format=delimited", "skip-initial-space-and-a-value-starting-with-a-blank"]
    target = "out.txt" if scenario.get("target") == "path" else "<stream>"
    batches = scenario.get("batches") or [1] * len(rows)
    attempted = []  # data rows the writer was actually asked to validate, in order
    with simfs.Seams(fs):
        cid = lib.load_cid(tabular.cid_rows(spec))
        writer_cid = cid
        if scenario.get("cid_as_path"):
            # the writer is handed the path of the CID (stored as a CSV file) instead of a Cid object
            fs.store("cid.csv", lib.render_delimited(tabular.cid_rows(spec), ",", '"', "\n").encode("utf-8"))
            writer_cid = "cid.csv"
            result.probe("cid-given-as-path")
        if target != "<stream>" and scenario.get("target_exists"):
            # the target path already holds an older, longer export: writing replaces it
            fs.store(target, ("zz,older export\r\n" * 40).encode("ascii"))
            result.probe("target-file-existed-before")
        run = lib.WriteRun(writer_cid, fs, target)
        if run.writer is None:
            raise core.Violation("writer-construction-failed", features, repr(lib.error_summary(run.init_error)))
        accepted = []
        row_objects = {}

        def as_given(row):
            if scenario.get("reuse_row_objects"):
                if tuple(row) in row_objects:
                    result.probe("same-row-object-written-again")
                return row_objects.setdefault(tuple(row), list(row))
            return list(row)

        unencodable_seen = False
        previous_output = ""
        written_header = 0
        verdicts = []
        position = 0
        for size in batches:
            batch = rows[position:position + size]
            position += size
            if not batch:
                continue
            # what the model expects of this call: rows are handled in order, the first rejection ends the call
            plan = []
            for row in batch:
                if written_header + sum(1 for entry in plan if entry[1] == "header") < header:
                    plan.append((row, "header", None))
                    continue
                if any(not isinstance(cell, str) for cell in row):
                    # a value that is no text (None, 0, False from a database row) is rejected at its field, whatever
                    # the field allows (a row of the wrong length for its length, as ever); no check gets to see the row
                    plan.append((row, "err", {"kind": "cell" if len(row) == len(spec["fields"]) else "count"}))
                    result.probe("value-that-is-no-text")
                    break
                item = tabular.RefReader(dict(spec, header=0), attempted + [row]).items()[-1]
                if item[0] == "row" and target != "<stream>" and not _encodable(row, spec.get("encoding", "utf-8")):
                    # conforming, but the file's encoding cannot store it: rejected as a whole, nothing of it is
                    # emitted.  cutplace validates first and writes second, so the checks have seen the row; the
                    # statement does not say otherwise, so the model follows that order.
                    attempted.append(row)
                    plan.append((row, "err", {"kind": "encode"}))
                    result.probe("unencodable-row")
                    break
                attempted.append(row)
                plan.append((row, item[0], item[1]))
                if item[0] == "err":
                    break
            given = [as_given(row) for row in batch]
            if len(batch) == 1:
                ok = run.write_row(given[0], copy=False)
            else:
                batch_rows = list(given)
                if scenario.get("rows_as_iterator"):
                    batch_rows = iter(batch_rows)  # any iterable of rows will do, also a one-shot one
                    result.probe("write_rows-with-one-shot-iterator")
                status, value = lib.call(run.writer.write_rows, batch_rows)
                run.results.append("ok" if status == "ok" else value)
                ok = status == "ok"
                result.probe("write_rows-batch")
            outcome = "ok" if ok else lib.error_summary(run.results[-1])
            history.add("client", "write", {"rows": batch, "outcome": outcome})
            if [list(row) for row in given] != [list(row) for row in batch]:
                raise core.Violation("caller-rows-changed-by-writer", features, "rows passed were %r and are %r after the call" % (
                    batch, given))
            last_row, last_kind, last_payload = plan[-1]
            if last_kind == "err":
                if ok:
                    raise core.Violation("non-conforming-row-written", features + ["kind=" + last_payload["kind"]],
                                         "row %r should be rejected (%r)" % (last_row, last_payload))
                if not isinstance(run.results[-1], errors.CutplaceError):
                    raise core.Violation("rejection-is-not-a-cutplace-error", features + ["class=" + outcome["class"]],
                                         "row %r: %r" % (last_row, outcome))
            elif not ok:
                rule = "header-row-rejected" if last_kind == "header" else "conforming-row-rejected"
                raise core.Violation(rule, features, "rows %r: %r" % (batch, outcome))
            if last_kind == "err" and last_payload["kind"] == "encode":
                unencodable_seen = True
            emitted = [row for row, kind, _ in plan if kind != "err"]
            for row, kind, payload in plan:
                if kind == "header":
                    written_header += 1
                    result.probe("header-row-written")
                else:
                    verdicts.append("row" if kind == "row" else payload["kind"])
                    if kind == "row":
                        accepted.append(row)
            if target == "<stream>":
                output = run.output()
                appended = output[len(previous_output):]
                if not output.startswith(previous_output):
                    raise core.Violation("earlier-output-changed", features, "before %r after %r" % (previous_output, output))
                if not emitted:
                    if appended:
                        raise core.Violation("rejected-row-left-output", features, "rows %r appended %r" % (batch, appended))
                elif fmt == "fixed":
                    record = "".join(_expected_record(spec, row, linesep) for row in emitted)
                    if appended != record:
                        raise core.Violation("record-bytes-differ", features + ["linesep=" + repr(linesep)],
                                             "rows %r appended %r, expected %r" % (emitted, appended, record))
                else:
                    status, parsed = lib.call(lambda: list(rowio.delimited_rows(io.StringIO(appended, newline=""), cid.data_format)))
                    if status == "exc" or parsed != emitted:
                        raise core.Violation("appended-text-is-not-the-row", features,
                                             "rows %r appended %r which reads as %r" % (emitted, appended, parsed))
                previous_output = output
        model = tabular.RefReader(dict(spec, header=0), attempted)
        expected = model.items()
        final_stream_text = run.output() if target == "<stream>" else None
        if scenario.get("close", True):
            run.close()
        closed = run.closed
        history.add("client", "close", closed if closed in (None, "ok") else lib.error_summary(closed))
        expected_end = model.end_error()
        if closed == "ok" and expected_end is not None:
            raise core.Violation("end-check-passed-unexpectedly", features, "model: %s fails" % expected_end)
        if closed not in (None, "ok"):
            if expected_end is None:
                raise core.Violation("end-check-failed-unexpectedly", features, repr(lib.error_summary(closed)))
            result.probe("end-check-fails")
        # ---- read the produced output back under a fresh copy of the same CID -----------------
        if target == "<stream>":
            output_text = final_stream_text
            back_source = io.StringIO(output_text, newline="")
        else:
            data = fs.files.get("out.txt")
            if data is None:
                raise core.Violation("output-did-not-reach-the-target", features + ["target=path"],
                                     "nothing was stored at the target path")
            output_text = bytes(data).decode(spec.get("encoding", "utf-8"))
            back_source = "out.txt"
            if fmt == "fixed":
                wanted_text = "".join(_expected_record(spec, row, linesep) for row in rows[:written_header] + accepted)
                if output_text != wanted_text:
                    raise core.Violation("record-bytes-differ", features + ["linesep=" + repr(linesep), "target=path"],
                                         "file %r, expected %r" % (output_text, wanted_text))
        fresh = lib.load_cid(tabular.cid_rows(spec))
        back = lib.ReadRun(fresh, back_source, "Reader", "yield")
        while back.step():
            pass
        back.close()
    history.add("client", "read-back", back.outcome())

    # reach
    kinds = verdicts
    for first, second in zip(kinds, kinds[1:]):
        if first != "row" and second == "row":
            result.probe("rejection-then-acceptance")
    for kind in kinds:
        if kind == "count":
            result.probe("wrong-item-count")
        if kind == "cell":
            result.probe("bad-cell")
        if kind == "check":
            result.probe("duplicate")
    for index, row in enumerate(attempted):
        if index > 0 and expected[index][0] == "row" and any(
                expected[earlier][0] == "err" and expected[earlier][1]["kind"] != "check" and attempted[earlier][:1] == row[:1]
                for earlier in range(index)):
            result.probe("duplicate-of-rejected-row")
    result.probe("delimiter:" + spec["line_delimiter"])
    result.probe("target:" + scenario["target"])
    if fmt == "fixed" and spec["line_delimiter"] == "any" and linesep == "\r\n":
        result.probe("linesep-crlf-with-any")
    result.nontrivial = len(rows) >= 2 and "row" in kinds and any(kind != "row" for kind in kinds)
    result.schedule_sig = [fmt, spec["line_delimiter"], linesep, scenario["target"], header, kinds, model.end_error(), batches,
                           scenario["io"]["regime"]]
    result.ticks = history.ticks + fs.ticks
    result.digest = history.digest()
    result.trace = {"rows": rows[:6], "verdicts": kinds[:6], "output": output_text[:200]}

    if back.raised is not None:
        raise core.Violation("output-cannot-be-read-back", features + ["class=" + type(back.raised).__name__],
                             "output %r: %r" % (output_text, lib.error_summary(back.raised)))
    returned = []
    for item in back.items:
        if item[0] == "err":
            culprit = ["format=" + fmt]
            if fmt == "fixed":
                twins = False
                for column, width in enumerate(tabular.widths(spec)):
                    spellings = {}
                    for row in accepted:
                        if column < len(row):
                            spellings.setdefault(row[column].ljust(width), set()).add(row[column])
                    twins = twins or any(len(variants) > 1 for variants in spellings.values())
                if twins:
                    # two accepted rows that differ only in how much of the padding the caller supplied
                    culprit.append("rows-differ-only-in-trailing-blanks")
                if blank_not_allowed and any(len(cell) < width for row in accepted for cell, width in zip(row, tabular.widths(spec))):
                    # a value shorter than its field was accepted, its padding is not made of allowed characters
                    culprit = ["format=fixed", "padding-is-not-an-allowed-character"]
            else:
                culprit.append("delimiter=" + spec["line_delimiter"])
                if "skip-initial-space-and-a-value-starting-with-a-blank" in features:
                    culprit = ["format=delimited", "skip-initial-space-and-a-value-starting-with-a-blank"]
            raise core.Violation("output-row-rejected-on-read-back", culprit, "output %r: %r" % (output_text, item[1]))
        returned.append(item[1])
    wanted_rows = accepted
    if fmt == "fixed":
        wanted_rows = [[cell.ljust(width) for cell, width in zip(row, tabular.widths(spec))] for row in accepted]
    if returned != wanted_rows:
        raise core.Violation("read-back-rows-differ", features, "written %r, read back %r (output %r)" % (
            wanted_rows, returned, output_text))
    return result


def candidates(scenario):
    minimum = scenario["cid"].get("header", 0)
    if any(size != 1 for size in scenario.get("batches") or []):
        yield lib.with_value(scenario, ["batches"], [1] * len(scenario["rows"]))
        return
    for candidate in lib.drop_candidates(scenario, ["rows"], minimum=0):
        candidate["batches"] = [1] * len(candidate["rows"])
        yield candidate
    for candidate in lib.drop_candidates(scenario, ["cid", "checks"]):
        yield candidate
    for candidate in lib.io_candidates(scenario):
        yield candidate
    if scenario["cid"].get("header"):
        candidate = lib.with_value(scenario, ["cid", "header"], 0)
        candidate["rows"] = candidate["rows"][1:]
        candidate["batches"] = [1] * len(candidate["rows"])
        yield candidate
    for key, value in (("sep", ":"), ("line_delimiter", "lf"), ("encoding", "utf-8")):
        if scenario["cid"].get(key) != value:
            yield lib.with_value(scenario, ["cid", key], value)
    if scenario["io"].get("linesep") != "\n":
        yield lib.with_value(scenario, ["io", "linesep"], "\n")
    if scenario.get("target") != "stream":
        yield lib.with_value(scenario, ["target"], "stream")
    if scenario.get("cid_as_path"):
        yield lib.with_value(scenario, ["cid_as_path"], False)
    if scenario.get("reuse_row_objects"):
        yield lib.with_value(scenario, ["reuse_row_objects"], False)
    fields = scenario["cid"]["fields"]
    if len(fields) > 1:
        name = fields[-1]["name"]
        if not any(name in check[2] for check in scenario["cid"]["checks"]):
            candidate = copy.deepcopy(scenario)
            del candidate["cid"]["fields"][-1]
            candidate["rows"] = [row[: len(fields) - 1] if len(row) >= len(fields) else row for row in candidate["rows"]]
            yield candidate
    simple = {"k": "a", "n": "1", "t": "x"}
    for row_index, row in enumerate(scenario["rows"]):
        for cell_index, cell in enumerate(row):
            if cell_index < len(fields) and cell != simple[fields[cell_index]["name"]]:
                candidate = copy.deepcopy(scenario)
                candidate["rows"][row_index][cell_index] = simple[fields[cell_index]["name"]]
                yield candidate
