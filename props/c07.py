"""C07 — header rows are skipped; the validation limit bounds validation, not data.

Seeded part: random CIDs / tables (several bad rows, garbage in the header rows) in all four
formats, read under seeded chunk schedules through every API that takes the limit: Reader.rows and
cutplace.rows (three modes), cutplace.validate, Reader.validate_rows and the command line's
``--until``.  Bounded sweep (named boundary set of the statement): header 0-3 x rows 1-5 x exactly
one bad row at every position (bad cell / wrong item count / duplicate) x limit in {none, 0..rows+1}
x the six API flavours.  Oracle: reference reader model with header and limit."""
import copy

from sim import core, lib, simfs, tabular

ID = "C07"
LEVEL = "exploration"
QUICK_RUNS = 12000
BATCH = 400
SWEEP_BATCH = 400
SWEEP_EXHAUSTIVE_NOTE = ("the sweep enumerates header 0-3 x 1-5 rows x one bad row at every position x 3 kinds of "
                         "badness x every limit x 6 API flavours completely (delimited, whole-file chunks)")
APIS = ["rows-yield", "rows-continue", "rows-raise", "validate", "validate_rows", "cli"]
RULE_TEXT = (
    "seeded scenarios (CID 1-4 fields, optional IsUnique, header 0-3 with garbage header rows, 0-8 rows, limit none / "
    "0..rows+1, 4 formats, 6 API flavours incl. main(['--until', N]), chunk schedules) plus the bounded boundary sweep "
    "described in sweep_note. Non-trivial: the table has at least one row inside the header or beyond the limit, or a "
    "rejected row. Distinct: (format, api, header, limit class relative to the first bad row, expected item kinds)."
)
ASSUMPTIONS = [
    "CIDs in this check carry no end-of-data check (DistinctCount): whether an end check on zero validated rows counts as "
    "'validating nothing' is not settled by the statement",
    "the command line is run in-process through applications.main(argv) with the CID stored as a CSV file in simulated "
    "storage; its verdict is compared with the model (1 iff a rejection within the limit exists, else 0)",
    "per-cell verdicts come from the real field on a private Cid",
]
COMPONENTS = {
    "real": ["cutplace.validio", "cutplace.applications (main, argparse)", "cutplace.interface", "cutplace.rowio readers",
             "csv", "io stack", "zipfile", "ElementTree", "xlrd"],
    "stub": ["SimFS/SimRaw", "peers", "stepping client"],
}
PROBES_REQUIRED = ["second-pass-on-the-same-reader", "cid-file-rewritten-with-other-header", "container-fault-right-behind-limit", "bad-row-on-header", "bad-row-right-after-header", "bad-row-on-limit", "bad-row-right-after-limit",
                   "limit-zero", "limit-inside-header", "api:cli", "api:validate", "api:validate_rows", "api:rows-yield",
                   "garbage-header"]


def _good_row(fields):
    return [tabular.FIELD_KINDS[field["type"]][2][0] for field in fields]


def generate(seed, tier):
    rng = core.stream(seed, "gen")
    swarm = core.stream(seed, "swarm")
    fmt = swarm.choice(tabular.FORMATS)
    fields = tabular.draw_fields(swarm, fmt, swarm.randint(1, 4))
    header = swarm.choice([0, 1, 1, 2, 3])
    spec = {"format": fmt, "header": header, "sep": swarm.choice([":", "...", "…"]), "fields": fields, "checks": []}
    if fmt in ("delimited", "fixed"):
        spec["line_delimiter"] = swarm.choice(["lf", "crlf", "any"] + (["none"] if fmt == "fixed" else []))
        if spec["line_delimiter"] == "any":
            spec["eol"] = swarm.choice(["\n", "\r", "\r\n"])
    if swarm.random() < 0.4:
        spec["checks"].append(["uniq", "IsUnique", swarm.choice([field["name"] for field in fields])])
    table = tabular.draw_table(rng, spec, 8, bad_rate=swarm.choice([0.05, 0.2]))
    # garbage in the header rows: whatever they contain, they are neither validated nor returned
    widths = tabular.widths(spec)
    for index in range(min(header, len(table))):
        if rng.random() < 0.7:
            if fmt == "fixed":
                table[index] = [rng.choice(["?", "#!", "Hd"])[:width] for width in widths]
            else:
                table[index] = [rng.choice(["?", "Header", "", "99999"]) for _ in range(rng.randint(1, len(fields) + 2))]
    if table and swarm.random() < 0.25:
        # the last rows are equal (a spreadsheet program stores them as one repeated row)
        table.append(list(table[-1]))
    if fmt == "delimited" and table and swarm.random() < 0.1:
        # what Excel puts in front of a CSV file to name the separator is a row like any other: skipped as header
        # row or rejected as data row, and counted either way
        table[0] = ["sep=", ""]
    limit = swarm.choice([None, None] + list(range(0, len(table) + 2)))
    api = swarm.choice(APIS)
    fault = None
    if fmt in ("delimited", "fixed") and spec.get("line_delimiter") != "none" and api == "validate" and limit is not None \
            and len(table) > header + limit \
            and swarm.random() < 0.6:
        # a container fault right behind the limit must stay invisible to validate(): it stops after N data rows
        fault_rng = core.stream(seed, "fault")
        table = [row if row else _good_row(fields) for row in table]
        kind = "open-quote" if fmt == "delimited" else "wrong-delimiter"
        row = header + limit + 1 if fault_rng.random() < 0.7 else fault_rng.randint(1, header + limit + 1)
        fault = {"kind": kind, "row": row, "cut": 1}
    rows_api = swarm.choice(["Reader", "rows"])
    return {"io": simfs.IoConfig.draw(swarm), "cid": spec, "table": table, "limit": limit, "api": api, "fault": fault,
            "rows_api": rows_api, "source": "path",
            "ods_features": sorted(swarm.sample(["colruns", "rowruns", "colstyle", "stored", "spans", "links"], swarm.randint(0, 3))),
            # the same Reader object has been iterated before (k rows, or completely): header and limit count from the
            # start of *this* pass
            "prepass": swarm.choice([None, None, 0, 1, 2, -1]) if api.startswith("rows-") and rows_api == "Reader" and not fault else None,
            # the CID is handed over as the path of a file that a moment ago declared another number of header rows
            "cid_as_path": swarm.choice([None, None, None, "plain", "rewritten"]) if api != "cli" else None}


# ---- bounded sweep ---------------------------------------------------------------------------
_SWEEP = None


def _sweep_cases():
    global _SWEEP
    if _SWEEP is None:
        cases = []
        fields = [{"name": "id", "type": "Integer"}, {"name": "name", "type": "Text"}]
        for header in range(4):
            for row_count in range(1, 6):
                for bad_at in range(1, row_count + 1):
                    for bad_kind in ("cell", "count", "duplicate"):
                        if bad_kind == "duplicate" and bad_at == 1:
                            continue
                        table = [[str(number), "x"] for number in range(1, row_count + 1)]
                        if bad_kind == "cell":
                            table[bad_at - 1][0] = "x"
                        elif bad_kind == "count":
                            table[bad_at - 1] = table[bad_at - 1] + ["extra"]
                        else:
                            table[bad_at - 1] = list(table[bad_at - 2])
                        for limit in [None] + list(range(0, row_count + 2)):
                            for api in APIS:
                                cases.append((header, table, limit, api, bad_kind))
        _SWEEP = (fields, cases)
    return _SWEEP


def sweep_size(tier):
    return len(_sweep_cases()[1])


def sweep_slice(tier, start, count):
    fields, cases = _sweep_cases()
    for header, table, limit, api, bad_kind in cases[start:start + count]:
        yield {"property": ID, "sweep": True, "io": {"regime": "whole"},
               "cid": {"format": "delimited", "header": header, "sep": ":", "fields": copy.deepcopy(fields),
                       "checks": [["uniq", "IsUnique", "id, name"]] if bad_kind == "duplicate" else []},
               "table": copy.deepcopy(table), "limit": limit, "api": api, "rows_api": "Reader", "source": "path"}


# ---- execution -------------------------------------------------------------------------------
def execute(scenario):
    result = core.Result()
    history = core.History()
    spec = scenario["cid"]
    fmt = spec["format"]
    table = scenario["table"]
    limit = scenario.get("limit")
    api = scenario["api"]
    header = spec.get("header", 0)
    fs = simfs.SimFS(simfs.IoConfig.from_dict(scenario["io"]))
    path = tabular.data_path(spec)
    fault = scenario.get("fault")
    if fault:
        from props import c06

        data, intact = c06.stored_bytes({"cid": spec, "table": table, "fault": fault})
        fs.store(path, data)
        table = table[:intact]
    else:
        tabular.store(fs, path, spec, table, features=scenario.get("ods_features"))
    raw_rows = tabular.as_read(spec, table)
    model = tabular.RefReader(spec, raw_rows, until=limit)
    expected = model.items()
    unlimited = tabular.RefReader(spec, raw_rows).items()
    first_error = next((index for index, item in enumerate(expected) if item[0] == "err"), None)
    features = ["api=" + api, "format=" + fmt]
    outcome = None
    with simfs.Seams(fs):
        if api == "cli":
            from cutplace import applications

            fs.store("cid.csv", lib.render_delimited(tabular.cid_rows(spec), ",", '"', "\n").encode("utf-8"))
            argv = ["cutplace"]
            if limit is not None or scenario.get("explicit_minus_one"):
                argv += ["--until", str(-1 if limit is None else limit)]
            argv += ["cid.csv", path]
            status, value = lib.call(applications.main, argv)
            outcome = {"exit": value if status == "ok" else lib.error_summary(value)}
        else:
            cid = lib.load_cid(tabular.cid_rows(spec))
            if scenario.get("cid_as_path"):
                if scenario["cid_as_path"] == "rewritten":
                    other_spec = dict(spec, header=0 if header else 2)
                    fs.store("cid.csv", lib.render_delimited(tabular.cid_rows(other_spec), ",", '"', "\n").encode("utf-8"))
                    earlier = lib.ReadRun("cid.csv", path, "Reader", "continue")
                    while earlier.step():
                        pass
                    earlier.close()
                    result.probe("cid-file-rewritten-with-other-header")
                fs.store("cid.csv", lib.render_delimited(tabular.cid_rows(spec), ",", '"', "\n").encode("utf-8"))
                cid = "cid.csv"
            if api.startswith("rows-"):
                mode = api.split("-")[1]
                run = lib.ReadRun(cid, path, scenario.get("rows_api", "Reader"), mode, until=limit)
            else:
                mode = "raise"
                run = lib.ReadRun(cid, path, api, "raise", until=limit)
            prepass = scenario.get("prepass")
            if prepass is not None and run.reader is not None and run.api == "Reader":
                def first_pass():
                    taken = 0
                    for _ in run.reader.rows():
                        taken += 1
                        if prepass >= 0 and taken >= prepass:
                            break

                lib.call(first_pass)
                run.generator = run.reader.rows()
                result.probe("second-pass-on-the-same-reader")
            while run.step():
                pass
            run.close()
            outcome = run.outcome()
    history.add("client", api, outcome)

    # reach
    result.probe("api:" + api)
    if limit == 0:
        result.probe("limit-zero")
    if limit is not None and 0 < limit <= header:
        result.probe("limit-inside-header")
    bad_rows = []
    verdicts = model.verdicts
    count = len(spec["fields"])
    for number, row in enumerate(raw_rows, 1):
        is_bad = len(row) != count or not all(verdicts[number - 1])
        if is_bad:
            bad_rows.append(number)
            if number == header and header:
                result.probe("bad-row-on-header")
            if number == header + 1:
                result.probe("bad-row-right-after-header")
            if limit is not None and number == limit:
                result.probe("bad-row-on-limit")
            if limit is not None and number == limit + 1:
                result.probe("bad-row-right-after-limit")
    if any(number <= header for number in bad_rows):
        result.probe("garbage-header")
    result.nontrivial = bool(bad_rows) or (header and len(raw_rows) > 0) or (limit is not None and limit < len(raw_rows))
    limit_class = None
    if limit is not None:
        first_bad = next((number for number in bad_rows if number > header), None)
        limit_class = "none-bad" if first_bad is None else ("before" if limit < first_bad else ("on" if limit == first_bad else "after"))
    result.schedule_sig = [fmt, api, scenario.get("rows_api"), header, limit_class, scenario["io"].get("regime"),
                           [item[0] if item[0] == "row" else item[1]["kind"] for item in expected]]
    result.ticks = history.ticks + fs.ticks
    result.digest = history.digest()
    result.trace = {"expected": expected[:8], "limit": limit, "header": header, "outcome": outcome}

    if api == "cli":
        wanted = 1 if first_error is not None else 0
        if outcome["exit"] != wanted:
            raise core.Violation("until-exit-code", features, "main(--until %r) -> %r, model %d (first rejection within limit: %r)" % (
                limit, outcome["exit"], wanted, None if first_error is None else expected[first_error]))
        return result
    if api.startswith("rows-"):
        tabular.verify_run(model, run, mode, scenario.get("rows_api", "Reader"), path, features)
        # rows beyond the limit and all accepted rows are returned unchanged
        return result
    # validate / validate_rows: raise iff a rejection exists among the rows within the limit
    raised = outcome["raised"]
    if fault:
        consumed_rows = header + limit if limit > 0 else 0  # validate(N=0) never even starts reading
        if fault["row"] > consumed_rows:
            result.probe("container-fault-right-behind-limit")
            result.fault(fault["kind"] + "-behind-limit")
            features = features + ["fault-behind-limit"]
        else:
            result.fault(fault["kind"] + "-within-limit")
            first_in_window = next((index for index, item in enumerate(expected[:limit]) if item[0] == "err"), None)
            if raised is None:
                raise core.Violation("container-fault-within-limit-not-reported", features, "fault %r limit %r header %d" % (
                    fault, limit, header))
            if raised.get("is_format_error"):
                return result
            if first_in_window is not None and tabular.item_mismatch(expected[first_in_window], ["err", raised], path) is None:
                return result
            raise core.Violation("container-fault-within-limit-other-error", features, repr(raised))
    if api == "validate" and limit is not None:
        # validate() stops after N data rows: a rejection is only seen if it is among the first N yielded rows
        window = expected[:limit]
        first_error = next((index for index, item in enumerate(window) if item[0] == "err"), None)
    if first_error is None:
        if raised is not None:
            raise core.Violation("validate-raised-without-rejection-within-limit", features + ["class=" + raised["class"]],
                                 "limit %r header %d: raised %r" % (limit, header, raised))
        if outcome["closed"] not in (None, "ok"):
            raise core.Violation("validate-close-failed", features, repr(outcome["closed"]))
    else:
        if raised is None:
            raise core.Violation("validate-missed-rejection-within-limit", features,
                                 "limit %r header %d: model rejects %r" % (limit, header, expected[first_error]))
        reason = tabular.item_mismatch(expected[first_error], ["err", raised], path)
        if reason is not None:
            raise core.Violation("validate-raised-other-error", features, "%s: model %r, raised %r" % (
                reason, expected[first_error], raised))
    return result


def candidates(scenario):
    if scenario.get("sweep"):
        return
    for candidate in lib.drop_candidates(scenario, ["table"]):
        yield candidate
    for candidate in lib.drop_candidates(scenario, ["cid", "checks"]):
        yield candidate
    fields = scenario["cid"]["fields"]
    if len(fields) > 1:
        for index in range(len(fields)):
            name = fields[index]["name"]
            if any(name in check[2] for check in scenario["cid"]["checks"]):
                continue
            candidate = copy.deepcopy(scenario)
            del candidate["cid"]["fields"][index]
            for row in candidate["table"]:
                if index < len(row):
                    del row[index]
            yield candidate
    for candidate in lib.io_candidates(scenario):
        yield candidate
    if scenario["cid"].get("header"):
        yield lib.with_value(scenario, ["cid", "header"], scenario["cid"]["header"] - 1)
    if scenario.get("fault"):
        return
    if scenario.get("limit") is not None:
        yield lib.with_value(scenario, ["limit"], None)
        if scenario["limit"] > 0:
            yield lib.with_value(scenario, ["limit"], scenario["limit"] - 1)
    for key, value in (("sep", ":"), ("line_delimiter", "lf"), ("format", "delimited")):
        if key in scenario["cid"] and scenario["cid"].get(key) != value:
            yield lib.with_value(scenario, ["cid", key], value)
    if scenario.get("rows_api") != "Reader":
        yield lib.with_value(scenario, ["rows_api"], "Reader")
    if scenario.get("prepass") is not None:
        yield lib.with_value(scenario, ["prepass"], None)
    if scenario.get("cid_as_path"):
        yield lib.with_value(scenario, ["cid_as_path"], None)
    for row_index, row in enumerate(scenario["table"]):
        good = _good_row(fields)
        if row != good:
            candidate = copy.deepcopy(scenario)
            candidate["table"][row_index] = good
            yield candidate
