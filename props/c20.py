"""C20 — user-defined field formats and checks are driven by the documented call protocol.

Recording plug-ins (sim/plugins.py) are resolved by class name through real CIDs and every hook call
is appended to the world history.  Workload: 1-4 recording fields (empty flag, length, allowed
characters varied), 0-3 checks (recording: accept all / veto rows / fail at end; optionally the built-in
IsUnique in between), tables of 0-6 rows with empty, blank-only, too-long, disallowed-character and
hook-rejected cells; header 0-2; validation limit; three error modes; Reader.rows, cutplace.rows,
cutplace.validate and Writer; 1-3 consecutive runs on ONE Cid; runs stopped after k steps; close called
twice.  Oracle: RefProtocol predicts the exact call sequence; the recorded history must equal it."""
import copy

from sim import core, lib, simfs

ID = "C20"
LEVEL = "exploration"
QUICK_RUNS = 20000
BATCH = 500
RULE_TEXT = (
    "seeded histories of 1-3 runs (read through Reader.rows / cutplace.rows / cutplace.validate in the three modes with "
    "limit and abandonment point, or write through Writer) on one Cid built from recording plug-in classes; the "
    "recorded call log of every run is compared with the sequence predicted from the protocol. Non-trivial: at least "
    "one check or one hook call predicted and >= 1 data row. Distinct: (format, per-run (kind, api, mode, limit class, "
    "stop class), number of checks, sequence of predicted event kinds)."
)
ASSUMPTIONS = [
    "the order of reset / cleanup calls among several checks is not prescribed: those blocks are compared as multisets",
    "if an end-of-data verdict fails, the remaining checks need not be asked (prefix accepted); cleanup still reaches all",
    "whether an empty (or, fixed-width, blank-only) cell is accepted is C03's business: that verdict is taken from the real "
    "field on a private Cid with recording off; the model only predicts which calls follow from it",
    "a run that is stopped early is closed right away; closing it twice must add no calls",
    "the plug-in folder scenario writes three module files to a scratch directory under /dev/shm (import_plugins needs "
    "the real import system); the directory is removed when the check ends",
]
COMPONENTS = {
    "real": ["cutplace.validio Reader/Writer/rows/validate", "cutplace.interface.Cid (class resolution)",
             "cutplace.fields.AbstractFieldFormat.validated and guards", "cutplace.checks.IsUniqueCheck", "cutplace.rowio"],
    "stub": ["recording plug-in classes (third-party code)", "SimFS/SimRaw", "stepping client"],
}
PROBES_REQUIRED = ["class-defined-after-first-cid", "reader-constructed-before-earlier-runs", "plug-in-folder-imported", "other-cid-used-before-in-same-process", "veto-by-first-of-several-checks", "first-cell-rejected", "blank-only-fixed-cell", "run-stopped-early",
                   "second-run-on-same-cid", "writer-run", "close-twice", "hook-rejection", "guard-rejection:chars",
                   "guard-rejection:length", "end-check-fails", "row-beyond-limit", "header-row", "wrong-item-count",
                   "builtin-isunique-between-recording-checks"]


def cid_rows(spec):
    rows = [["d", "format", spec["format"]], ["d", "encoding", "utf-8"], ["d", "line delimiter", "lf"]]
    if spec.get("header"):
        rows.append(["d", "header", str(spec["header"])])
    if spec.get("allowed") and not spec.get("allowed_declared_late"):
        rows.append(["d", "allowed characters", "%d:%d" % tuple(spec["allowed"])])
    for index, field in enumerate(spec["fields"]):
        length = str(field["width"]) if spec["format"] == "fixed" else field.get("length", "")
        rows.append(["f", field["name"], "", "X" if field.get("empty") else "", length, field["type"], ""])
        if spec.get("allowed") and spec.get("allowed_declared_late") and index == 0:
            # a data format row may follow field rows: it describes the data, so it holds for every field
            rows.append(["d", "allowed characters", "%d:%d" % tuple(spec["allowed"])])
    for check in spec["checks"]:
        rows.append(["c"] + list(check))
    return rows


def generate(seed, tier):
    rng = core.stream(seed, "gen")
    swarm = core.stream(seed, "swarm")
    fmt = swarm.choice(["delimited", "fixed"])
    fields = []
    for index in range(swarm.randint(1, 4)):
        fields.append({"name": "f%d" % index, "type": swarm.choice(["RecA", "RecB"]), "empty": swarm.random() < 0.4,
                       "width": swarm.choice([3, 4]), "length": swarm.choice(["", "1:3", "2:4", "1:1, 4:5", "1:2, 5:6"])})
    checks = []
    for index in range(swarm.choice([0, 1, 1, 2, 3])):
        behaviour = swarm.choice(["", "", "veto=x", "veto=y", "end=fail", "veto=x;end=fail"])
        checks.append([["zulu", "alpha", "mike"][index] + str(index), swarm.choice(["RecX", "RecY"]), behaviour])  # declaration order is not alphabetical order
    if checks and swarm.random() < 0.25:
        checks.insert(swarm.randint(0, len(checks)), ["uniq", "IsUnique", "f0"])
    spec = {"format": fmt, "header": swarm.choice([0, 0, 1, 2]), "fields": fields, "checks": checks,
            "allowed": swarm.choice([None, None, [32, 126], [32, 126], [33, 126]]),
            "allowed_declared_late": swarm.random() < 0.3}
    pool = ["ab", "ab", "xa", "ya", "b", "", "a!", "aü", "abcde", " a", "xy", "abc", "abcd"]
    if fmt == "delimited":
        pool.append("a\nb")  # a line break inside a cell
        pool.append(" ")  # outside fixed-width data a blank is a character: the cell is not empty
    if fmt == "fixed":
        pool += ["   ", "a "]
    tables = {}
    for name in "AB"[: swarm.randint(1, 2)]:
        table = []
        for _ in range(rng.randint(0, 6)):
            row = [rng.choice(pool) for _ in fields]
            if fmt == "fixed":
                row = [cell[: field["width"]] for cell, field in zip(row, fields)]
            elif rng.random() < 0.1:
                row = row[:-1] if rng.random() < 0.5 else row + ["ab"]
            table.append(row)
        tables[name] = table
    runs = []
    for _ in range(swarm.choice([1, 1, 2, 3])):
        data = rng.choice(sorted(tables))
        size = len(tables[data])
        if rng.random() < 0.7:
            mode = rng.choice(["raise", "yield", "continue"])
            api = rng.choice(["Reader", "rows", "validate", "validate_rows"])
            runs.append({"kind": "read", "data": data, "api": api, "mode": "raise" if api == "validate" else mode,
                         "limit": rng.choice([None, None, 0, 1, 2, size, size + 1]),
                         "stop_after": rng.choice([None, None, None, 0, 1, 2]) if api in ("Reader", "rows") else None,
                         "close_twice": rng.random() < 0.3, "create": rng.choice(["late", "late", "early"]),
                         "never_close": rng.random() < 0.15})
        else:
            runs.append({"kind": "write", "data": data, "close_twice": rng.random() < 0.3})
    if swarm.random() < 0.15:
        # a field format class that comes into existence while the process is already using cutplace
        fields[0]["type"] = "LateQ"
    plugin_folder = swarm.random() < 0.3
    if plugin_folder:
        # some of the classes come from a plug-in folder imported while the process is already running
        for field in fields:
            if swarm.random() < 0.6:
                field["type"] = swarm.choice(["FolderA", "FolderB"])
        for check in checks:
            if check[1] != "IsUnique" and swarm.random() < 0.6:
                check[1] = "FolderX"
    second_folder = plugin_folder and swarm.random() < 0.5
    if second_folder:
        # a second plug-in folder is imported after the first one; one of its files has the name of a file of the first
        for field in fields:
            if swarm.random() < 0.4:
                field["type"] = "FolderC"
    prelude = None
    if swarm.random() < 0.3:
        # another Cid with the same structure but a wider allowed-characters range is used in the same process first
        prelude = {"allowed": swarm.choice([None, [32, 255]]), "data": rng.choice(sorted(tables))}
    return {"io": simfs.IoConfig.draw(swarm), "cid": spec, "tables": tables, "runs": runs, "prelude": prelude,
            "plugin_folder": plugin_folder, "second_folder": second_folder}


# ---- reference model of the protocol ------------------------------------------------------------
class RefProtocol(object):
    def __init__(self, spec, empty_verdict):
        self.spec = spec
        self.fixed = spec["format"] == "fixed"
        self.empty_verdict = empty_verdict  # (field index, cell) -> bool, asked from the real field
        self.checks = spec["checks"]

    def cell(self, index, cell):
        """(accepted, hook value or None, why rejected)"""
        field = self.spec["fields"][index]
        stripped = cell.strip() if self.fixed else cell
        allowed = self.spec.get("allowed")
        chars_ok = allowed is None or all(allowed[0] <= ord(char) <= allowed[1] for char in cell)
        if stripped == "":
            if not chars_ok:
                return False, None, "chars"
            return self.empty_verdict(index, cell), None, "empty"
        if not chars_ok:
            return False, None, "chars"
        if self.fixed:
            length_ok = len(cell) <= field["width"]
        elif field.get("length"):
            # one or more parts "low:high", separated by commas
            parts = [[int(limit) for limit in part.split(":")] for part in field["length"].split(",")]
            length_ok = any(low <= len(cell) <= high for low, high in parts)
        else:
            length_ok = True
        if not length_ok:
            return False, None, "length"
        return "!" not in stripped, stripped, "hook"

    def row_events(self, row, line, state, probes):
        """Events caused by validating one row; returns (events, accepted)."""
        events = []
        names = [field["name"] for field in self.spec["fields"]]
        if len(row) != len(names):
            probes.append("wrong-item-count")
            return events, False
        for index, cell in enumerate(row):
            accepted, hook_value, why = self.cell(index, cell)
            if self.fixed and cell != "" and cell.strip() == "":
                probes.append("blank-only-fixed-cell")
            if hook_value is not None:
                events.append(["value", names[index], hook_value])
            if not accepted:
                if index == 0:
                    probes.append("first-cell-rejected")
                probes.append("hook-rejection" if why == "hook" else "guard-rejection:" + why)
                return events, False
        for position, (description, kind, rule) in enumerate(self.checks):
            if kind == "IsUnique":
                key = row[0]
                if key in state["unique"]:
                    return events, False
                state["unique"].add(key)
                continue
            events.append(["row", description, list(row), line])
            veto = next((part[len("veto="):] for part in rule.split(";") if part.startswith("veto=")), None)
            if veto is not None and veto in row[0]:
                if position == 0 and len(self.checks) > 1:
                    probes.append("veto-by-first-of-several-checks")
                return events, False
        return events, True

    def end_events(self, probes):
        asked = []
        for description, kind, rule in self.checks:
            if kind == "IsUnique":
                continue
            asked.append(["end", description])
            if "end=fail" in rule:
                probes.append("end-check-fails")
                break
        cleanup = [["cleanup", description] for description, kind, _ in self.checks if kind != "IsUnique"]
        return asked, cleanup

    def resets(self):
        return [["reset", description] for description, kind, _ in self.checks if kind != "IsUnique"]


PLUGIN_MODULES = {
    "plug_alpha.py": """from cutplace import fields
from sim import plugins


class FolderAFieldFormat(plugins._RecordingFieldFormat, fields.AbstractFieldFormat):
    def __init__(self, field_name, is_allowed_to_be_empty, length, rule, data_format):
        super().__init__(field_name, is_allowed_to_be_empty, length, rule, data_format, empty_value="")
""",
    "plug_beta.py": """from cutplace import fields
from sim import plugins


class FolderBFieldFormat(plugins._RecordingFieldFormat, fields.AbstractFieldFormat):
    def __init__(self, field_name, is_allowed_to_be_empty, length, rule, data_format):
        super().__init__(field_name, is_allowed_to_be_empty, length, rule, data_format, empty_value="")
""",
    "plug_gamma.py": """from cutplace import checks
from sim import plugins


class FolderXCheck(plugins._RecordingCheck, checks.AbstractCheck):
    def __init__(self, description, rule, available_field_names, location=None):
        super().__init__(description, rule, available_field_names, location)
        self._configure()
""",
}


# a second folder: its only file has the same name as a file of the first folder
PLUGIN_MODULES_2 = {
    "plug_alpha.py": PLUGIN_MODULES["plug_alpha.py"].replace("FolderAFieldFormat", "FolderCFieldFormat"),
}

_LATE = {}


def _define_late_class(probes):
    """A user-defined field format class defined after the first Cid of the process exists."""
    from cutplace import fields, interface

    from sim import plugins

    interface.Cid()
    if "class" not in _LATE:
        def __init__(self, field_name, is_allowed_to_be_empty, length, rule, data_format):
            fields.AbstractFieldFormat.__init__(self, field_name, is_allowed_to_be_empty, length, rule, data_format,
                                                empty_value="")

        _LATE["class"] = type("LateQFieldFormat", (plugins._RecordingFieldFormat, fields.AbstractFieldFormat),
                              {"__init__": __init__})
    probes.append("class-defined-after-first-cid")


def _import_plugin_folder(probes, second=False):
    """Write the plug-in modules to a scratch folder (real disk: import_plugins uses glob and the import system)
    and import them through cutplace - after a Cid has already been created in this process."""
    import os

    from cutplace import interface

    interface.Cid()  # a Cid created before the folder is imported must not freeze the set of known classes
    folder = os.path.join(os.environ.get("VERIF_SCRATCH", "/dev/shm/verif-scratch-x"), "plugins-%d" % os.getpid())
    if not os.path.isdir(folder):
        os.makedirs(folder)
        for name, source in sorted(PLUGIN_MODULES.items()):
            with open(os.path.join(folder, name), "w", encoding="utf-8") as stream:
                stream.write(source)
    interface.import_plugins(folder)
    if second:
        folder2 = folder.replace("plugins-", "plugins2-")
        if not os.path.isdir(folder2):
            os.makedirs(folder2)
            for name, source in sorted(PLUGIN_MODULES_2.items()):
                with open(os.path.join(folder2, name), "w", encoding="utf-8") as stream:
                    stream.write(source)
        interface.import_plugins(folder2)
        probes.append("second-plug-in-folder-with-same-file-name")
    # the cyclic garbage collector may run at any moment; the simulator lets it run right here, between the
    # import of the folder and the first use of its classes (found the hard way: a flaky harness failure)
    import gc

    gc.collect()
    probes.append("plug-in-folder-imported")


def _normalise(events):
    """Order inside a block of consecutive reset (or cleanup) events is not prescribed."""
    result = []
    block = []
    for event in events:
        if event[0] in ("reset", "cleanup") and (not block or block[0][0] == event[0]):
            block.append(event)
            continue
        result.extend(sorted(block))
        block = [event] if event[0] in ("reset", "cleanup") else []
        if not block:
            result.append(event)
    result.extend(sorted(block))
    return result


def execute(scenario):
    from sim import plugins  # defines the recording classes once per process

    result = core.Result()
    history = core.History()
    spec = scenario["cid"]
    fmt = spec["format"]
    header = spec.get("header", 0)
    fs = simfs.SimFS(simfs.IoConfig.from_dict(scenario["io"]))
    widths = [field["width"] for field in spec["fields"]]
    probes = []
    for name, table in scenario["tables"].items():
        if fmt == "fixed":
            data = lib.render_fixed(table, widths, "\n")
        else:
            data = lib.render_delimited(table, ",", '"', "\n")
        fs.store(name + ".txt", data.encode("utf-8"))

    plugins.set_log(None)
    if any(field["type"] == "LateQ" for field in spec["fields"]):
        _define_late_class(probes)
    if scenario.get("plugin_folder"):
        _import_plugin_folder(probes, scenario.get("second_folder"))
    status, oracle_cid = lib.call(lib.load_cid, cid_rows(spec), "oracle-cid")
    if status == "exc":
        types = sorted({field["type"] for field in spec["fields"]} | {check[1] for check in spec["checks"]})
        raise core.Violation("plug-in-class-not-resolved", [name for name in types if name.startswith(("Folder", "Late"))] or types,
                             "CID %r: %r" % (cid_rows(spec), lib.error_summary(oracle_cid)))

    def empty_verdict(index, cell):
        from cutplace import errors

        plugins.set_log(None)
        try:
            oracle_cid.field_formats[index].validated(cell)
            return True
        except errors.FieldValueError:
            return False
        finally:
            plugins.set_log(log)

    model = RefProtocol(spec, empty_verdict)
    log = []
    mismatch = None
    run_summaries = []
    with simfs.Seams(fs):
        prelude = scenario.get("prelude")
        if prelude:
            other = lib.load_cid(cid_rows(dict(spec, allowed=prelude["allowed"])), "other-cid")
            before = lib.ReadRun(other, prelude["data"] + ".txt", "Reader", "continue")
            while before.step():
                pass
            before.close()
            probes.append("other-cid-used-before-in-same-process")
        cid = lib.load_cid(cid_rows(spec))
        plugins.set_log(log)
        try:
            # readers may be constructed long before their data set is read; constructing one calls nothing
            early = {}
            for run_index, run in enumerate(scenario["runs"]):
                if run["kind"] == "read" and run.get("create") == "early" and run["api"] != "validate":
                    early[run_index] = lib.ReadRun(cid, run["data"] + ".txt", run["api"], run["mode"], until=run.get("limit"))
                    probes.append("reader-constructed-before-earlier-runs")
            if log:
                mismatch = (-1, {"kind": "construction"}, [list(event) for event in log], [])
            for run_index, run in enumerate(scenario["runs"]):
                del log[:]
                table = scenario["tables"][run["data"]]
                predicted = []
                state = {"unique": set()}
                if run_index > 0:
                    probes.append("second-run-on-same-cid")
                if run["kind"] == "read":
                    rows_as_read = [[cell.ljust(width) for cell, width in zip(row, widths)] for row in table] \
                        if fmt == "fixed" else table
                    limit = run.get("limit")
                    reader = early.get(run_index) or lib.ReadRun(cid, run["data"] + ".txt", run["api"], run["mode"], until=limit)
                    steps = 0
                    stop_after = run.get("stop_after")
                    while (stop_after is None or steps < stop_after) and reader.step():
                        steps += 1
                    stopped_early = not reader.finished
                    if stopped_early:
                        probes.append("run-stopped-early")
                    never_close = bool(run.get("never_close")) and run["api"] == "Reader"
                    if never_close:
                        # the Reader is never closed: it just goes out of scope, and the garbage collector runs.
                        # Going out of scope is not closing: no hook may be called for it.
                        outcome_of_unclosed = reader.outcome(with_message=False)
                        early.pop(run_index, None)
                        reader.generator = None
                        reader.reader = None
                        import gc

                        gc.collect()
                        probes.append("reader-never-closed-and-garbage-collected")
                    else:
                        reader.close()
                    if run.get("close_twice") and not never_close:
                        reader.close()
                        probes.append("close-twice")
                    # ---- prediction -----------------------------------------------------------
                    started = run["api"] == "validate" or steps > 0 or stop_after is None
                    if run["api"] == "validate" and limit == 0:
                        started = False
                    produced = 0  # items the generator has handed out so far
                    if started or (run["api"] != "rows" and not never_close):
                        # (a validator that never validated a row resets the checks when it is closed)
                        predicted.extend(model.resets())
                    if started:
                        wanted_items = None if stop_after is None else stop_after
                        taken_data_rows = 0
                        for number, row in enumerate(rows_as_read, 1):
                            if wanted_items is not None and produced >= wanted_items:
                                break
                            if run["api"] == "validate" and limit is not None and taken_data_rows >= limit:
                                break
                            if number <= header:
                                probes.append("header-row")
                                continue
                            taken_data_rows += 1
                            if limit is not None and number > limit:
                                probes.append("row-beyond-limit")
                                produced += 1
                                continue
                            events, accepted = model.row_events(row, number - 1, state, probes)
                            predicted.extend(events)
                            if accepted or run["mode"] == "yield":
                                produced += 1
                            if not accepted and run["mode"] == "raise":
                                break
                    closes = started or run["api"] != "rows"  # an unstarted cutplace.rows() generator owns no reader yet
                    if closes and not never_close:
                        asked, cleanup = model.end_events(probes)
                        predicted.extend(asked)
                        predicted.extend(cleanup)
                    outcome = outcome_of_unclosed if never_close else reader.outcome(with_message=False)
                else:
                    probes.append("writer-run")
                    writer = lib.WriteRun(cid, fs, "out%d.txt" % run_index)
                    predicted.extend(model.resets())
                    written = 0
                    for row in table:
                        if fmt == "fixed" and len(row) != len(widths):
                            continue
                        ok = writer.write_row(row)
                        if written < header:
                            written += 1 if ok else 0
                            continue
                        events, accepted = model.row_events(row, written, state, probes)
                        predicted.extend(events)
                        if ok:
                            written += 1
                    writer.close()
                    if run.get("close_twice"):
                        lib.call(writer.writer.close)
                        probes.append("close-twice")
                    asked, cleanup = model.end_events(probes)
                    predicted.extend(asked)
                    predicted.extend(cleanup)
                    outcome = writer.outcome(with_message=False)
                recorded = [list(event) for event in log]
                history.add("plugins", "run", {"run": run, "recorded": recorded})
                run_summaries.append({"run": run, "recorded": recorded[:12], "predicted": predicted[:12]})
                if mismatch is None and _normalise(recorded) != _normalise(predicted):
                    mismatch = (run_index, run, recorded, predicted)
        finally:
            plugins.set_log(None)

    for name in probes:
        result.probe(name)
    kinds = [check[1] for check in spec["checks"]]
    if "IsUnique" in kinds and 0 < kinds.index("IsUnique") < len(kinds) - 1:
        result.probe("builtin-isunique-between-recording-checks")
    total_events = sum(len(summary["predicted"]) for summary in run_summaries)
    result.nontrivial = total_events > 0 and any(scenario["tables"][run["data"]] for run in scenario["runs"])
    result.schedule_sig = [fmt, len(spec["checks"]), header,
                           [[run["kind"], run.get("api"), run.get("mode"),
                             None if run.get("limit") is None else min(run["limit"], 3),
                             None if run.get("stop_after") is None else min(run["stop_after"], 2)] for run in scenario["runs"]],
                           [[event[0] for event in summary["predicted"]] for summary in run_summaries]]
    result.ticks = history.ticks + fs.ticks
    result.digest = history.digest()
    result.trace = run_summaries[:2]
    if mismatch is not None:
        run_index, run, recorded, predicted = mismatch
        normal_recorded, normal_predicted = _normalise(recorded), _normalise(predicted)
        position = next((index for index, pair in enumerate(zip(normal_recorded, normal_predicted)) if pair[0] != pair[1]),
                        min(len(normal_recorded), len(normal_predicted)))
        got = normal_recorded[position][0] if position < len(normal_recorded) else "nothing"
        wanted = normal_predicted[position][0] if position < len(normal_predicted) else "nothing"
        features = ["kind=" + run["kind"], "recorded=" + got, "predicted=" + wanted]
        if run.get("create") == "early":
            features.append("constructed-early")
        if run_index > 0:
            features.append("later-run")
        raise core.Violation("call-sequence-differs-from-protocol", features,
                             "run %d %r: at event %d recorded %r, protocol predicts %r; recorded=%r predicted=%r" % (
                                 run_index, run, position, normal_recorded[position:position + 2],
                                 normal_predicted[position:position + 2], normal_recorded[:14], normal_predicted[:14]))
    return result


def candidates(scenario):
    for candidate in lib.drop_candidates(scenario, ["runs"], minimum=1):
        yield candidate
    if scenario.get("prelude"):
        yield lib.with_value(scenario, ["prelude"], None)
    if scenario.get("second_folder"):
        candidate = copy.deepcopy(scenario)
        candidate["second_folder"] = False
        for field in candidate["cid"]["fields"]:
            if field["type"] == "FolderC":
                field["type"] = "FolderA"
        yield candidate
    if scenario.get("plugin_folder"):
        candidate = copy.deepcopy(scenario)
        candidate["plugin_folder"] = False
        candidate["second_folder"] = False
        for field in candidate["cid"]["fields"]:
            if field["type"].startswith("Folder"):
                field["type"] = "RecA"
        for check in candidate["cid"]["checks"]:
            if check[1] == "FolderX":
                check[1] = "RecX"
        yield candidate
    for name in sorted(scenario["tables"]):
        for candidate in lib.drop_candidates(scenario, ["tables", name]):
            yield candidate
    for candidate in lib.drop_candidates(scenario, ["cid", "checks"]):
        yield candidate
    fields = scenario["cid"]["fields"]
    if len(fields) > 1:
        for index in range(1, len(fields)):
            candidate = copy.deepcopy(scenario)
            del candidate["cid"]["fields"][index]
            for table in candidate["tables"].values():
                for row in table:
                    if index < len(row):
                        del row[index]
            yield candidate
    for candidate in lib.io_candidates(scenario):
        yield candidate
    if scenario["cid"].get("header"):
        yield lib.with_value(scenario, ["cid", "header"], scenario["cid"]["header"] - 1)
    if scenario["cid"].get("allowed_declared_late"):
        yield lib.with_value(scenario, ["cid", "allowed_declared_late"], False)
    if scenario["cid"].get("allowed"):
        yield lib.with_value(scenario, ["cid", "allowed"], None)
    if scenario["cid"]["format"] != "delimited":
        yield lib.with_value(scenario, ["cid", "format"], "delimited")
    for index, field in enumerate(fields):
        if field["type"] == "LateQ":
            yield lib.with_value(scenario, ["cid", "fields", index, "type"], "RecA")
        if field.get("empty"):
            yield lib.with_value(scenario, ["cid", "fields", index, "empty"], False)
        if field.get("length"):
            yield lib.with_value(scenario, ["cid", "fields", index, "length"], "")
    for index, check in enumerate(scenario["cid"]["checks"]):
        if check[1] != "IsUnique" and check[2]:
            yield lib.with_value(scenario, ["cid", "checks", index, 2], "")
    for index, run in enumerate(scenario["runs"]):
        simple = {"api": "Reader", "mode": "raise", "limit": None, "stop_after": None, "close_twice": False, "create": "late"} \
            if run["kind"] == "read" else {"close_twice": False}
        for key, value in simple.items():
            if run.get(key) != value:
                yield lib.with_value(scenario, ["runs", index, key], value)
    for name in sorted(scenario["tables"]):
        for row_index, row in enumerate(scenario["tables"][name]):
            for cell_index, cell in enumerate(row):
                if cell != "ab":
                    candidate = copy.deepcopy(scenario)
                    candidate["tables"][name][row_index][cell_index] = "ab"
                    yield candidate
