"""C17 — the storage format of CID and data does not change the verdict.

One logical CID and one logical table of text cells; the CID is stored as CSV, ODS and XLSX by the
peers, the data as delimited text, ODS and XLSX under CIDs differing only in Format: 9 combinations
per case, each read under its own chunk schedule from simulated storage.  Oracle: differential -
the three loads of a CID must have equal summaries, the per-row outcomes and returned rows must be
equal across the three data formats."""
import copy

from sim import core, lib, simfs, tabular
from sim.peers import odf, xlsx

ID = "C17"
LEVEL = "exploration"
QUICK_RUNS = 3000
BATCH = 60
STORAGES = ["csv", "ods", "xlsx"]
DATA_FORMATS = ["delimited", "ods", "excel"]
RULE_TEXT = (
    "seeded cases: logical CID (1-5 fields over all 8 types incl. Decimal and DateTime, optional IsUnique / DistinctCount, "
    "header 0-1, range separators spelled ':', '...' or the ellipsis character) x logical table of 0-6 rows of text cells "
    "(accepted and rejected cells); CID stored as csv/ods/xlsx x data stored as delimited/ods/excel = 9 combinations per "
    "case, each under its own chunk schedule. Non-trivial: >= 1 data row. Distinct: (field types, checks, header, "
    "sequence of per-row outcomes, chunk regimes)."
)
ASSUMPTIONS = [
    "cells are stored as text cells so that the comparison is about storage, not about number rendering (C16)",
    "the last column is never empty and rows are not ragged: a workbook cannot represent a trailing empty text cell, "
    "which would change the table itself rather than the verdict",
    "CID summaries compare str(data_format), and per field (name, class, empty flag, length, rule, example), per check "
    "(description, class, rule), in order",
]
COMPONENTS = {
    "real": ["cutplace.interface.Cid (auto_rows, read)", "cutplace.validio.Reader", "cutplace.rowio delimited_rows/ods_rows/"
             "excel_rows", "cutplace.fields (all types)", "csv", "zipfile", "ElementTree", "xlrd"],
    "stub": ["text / ODF / XLSX peers", "SimFS/SimRaw"],
}
PROBES_REQUIRED = ["cid-suffix-not-lower-case", "path-rewritten-between-two-reads", "datetime-with-time-part", "type:Decimal", "type:DateTime", "type:Integer", "type:Choice", "type:RegEx", "type:Pattern",
                   "type:Constant", "type:Text", "rejected-row", "check-rejection", "end-check-fails", "ellipsis-char-in-cid"]


def generate(seed, tier):
    rng = core.stream(seed, "gen")
    swarm = core.stream(seed, "swarm")
    fields = []
    for index in range(swarm.randint(1, 5)):
        kind = swarm.choice(tabular.KIND_NAMES)
        fields.append({"name": "%s%d" % (kind[:3].lower(), index), "type": kind,
                       "empty": kind != "Constant" and swarm.random() < 0.25})
    fields[-1]["empty"] = False
    for field in fields:
        if field["type"] == "DateTime" and swarm.random() < 0.5:
            # a layout with a time part; midnight is an ordinary value of it
            field.update({"rule": "YYYY-MM-DD hh:mm:ss", "width": 19,
                          "good": ["2020-03-02 00:00:00", "1999-12-31 23:59:59", "2021-06-15 12:00:00"],
                          "bad": ["2020-02-30 00:00:00", "2020-03-02", "x"]})
    names = [field["name"] for field in fields]
    checks = []
    if swarm.random() < 0.4:
        checks.append(["uniq", "IsUnique", swarm.choice(names)])
    if swarm.random() < 0.3:
        checks.append(["dc", "DistinctCount", "%s %s %d" % (swarm.choice(names), swarm.choice(["<=", ">="]), swarm.randint(1, 3))])
    spec = {"header": swarm.choice([0, 0, 1]), "sep": swarm.choice([":", "...", "…"]), "fields": fields, "checks": checks}
    table = []
    for _ in range(rng.randint(0, 6)):
        row = [tabular.draw_cell(rng, field, "delimited", 0.15) for field in fields]
        if row[-1] == "":
            row[-1] = fields[-1].get("good", tabular.FIELD_KINDS[fields[-1]["type"]][2])[0]
        if rng.random() < 0.2:
            # surrounding blanks are part of the cell in every storage format
            index = rng.randrange(len(row))
            row[index] = rng.choice([" " + row[index], row[index] + " ", "  " + row[index]]) if row[index] else row[index]
        if rng.random() < 0.1:
            # characters some libraries take for line breaks are ordinary characters of a cell in every storage format
            index = rng.randrange(len(row))
            row[index] = row[index][:2] + rng.choice(["\u2028", "\u0085", "\u2029"])
        if rng.random() < 0.08:
            # a line break inside a cell is a character of that cell in every storage format
            index = rng.randrange(len(row))
            row[index] = row[index][:1] + "\n" + row[index][1:2]
        table.append(row)
    if swarm.random() < 0.15:
        # the characters a cell may consist of are the same however the cell is stored
        spec["props"] = [["allowed characters", "32%s126" % spec["sep"]]]
    return {"cid": spec, "table": table, "ios": [simfs.IoConfig.draw(swarm) for _ in range(3)],
            "ods_features": sorted(swarm.sample(["colruns", "rowruns", "stored", "colstyle", "spans", "annotations", "embedded-object", "links", "row-groups", "header-rows", "covered-cells", "no-value-type", "utf16", "latin1", "filtered-rows", "sub-table", "dde-links"],
                                                swarm.randint(0, 2))),
            "other_table_at_same_path_first": swarm.random() < 0.3,
            # file names are whatever the user's tools made of them: cid.ODS, cid.Xlsx
            "suffix_case": swarm.choice(["lower", "lower", "upper", "title"])}


def _store_rows(fs, path, storage, rows, features=()):
    if storage == "csv":
        fs.store(path, lib.render_delimited(rows, ",", '"', "\n").encode("utf-8"))
    elif storage == "ods":
        data, _, _ = odf.encode([rows], features)
        fs.store(path, data)
    else:
        fs.store(path, xlsx.encode([xlsx.text_table(rows)]))


def _summary(cid):
    return {
        "format": str(cid.data_format),
        "fields": [[field.field_name, type(field).__name__, field.is_allowed_to_be_empty, str(field.length), field.rule,
                    field.example] for field in cid.field_formats],
        "checks": [[name, type(cid.check_map[name]).__name__, cid.check_map[name].rule] for name in cid.check_names],
    }


def execute(scenario):
    from cutplace import interface

    result = core.Result()
    history = core.History()
    logical = scenario["cid"]
    table = scenario["table"]
    features = set(scenario.get("ods_features") or ())
    suffix = {"csv": ".csv", "ods": ".ods", "xlsx": ".xlsx"}
    if scenario.get("suffix_case", "lower") != "lower":
        suffix = {key: value.upper() if scenario["suffix_case"] == "upper" else value.title() for key, value in suffix.items()}
        result.probe("cid-suffix-not-lower-case")
    outcomes = {}
    ticks = 0
    violation = None
    for format_index, data_format in enumerate(DATA_FORMATS):
        spec = dict(logical, format=data_format)
        rows = tabular.cid_rows(spec)
        fs = simfs.SimFS(simfs.IoConfig.from_dict(scenario["ios"][format_index]))
        summaries = {}
        cids = {}
        with simfs.Seams(fs):
            for storage in STORAGES:
                path = "cid_%s%s" % (data_format, suffix[storage])
                _store_rows(fs, path, storage, rows, features)
                status, value = lib.call(interface.Cid, path)
                if status == "exc":
                    summaries[storage] = {"error": lib.error_summary(value, with_message=False)["class"]}
                    history.add("client", "load-cid", {"path": path, "error": lib.error_summary(value)})
                    if violation is None:
                        violation = core.Violation("cid-not-loadable-from-storage", ["storage=" + storage, "data-format=" + data_format,
                                                                                   "class=" + type(value).__name__],
                                                   "%s: %r" % (path, value))
                else:
                    cids[storage] = value
                    summaries[storage] = _summary(value)
                    history.add("client", "load-cid", {"path": path, "summary": summaries[storage]})
            if violation is None and not (summaries["csv"] == summaries["ods"] == summaries["xlsx"]):
                different = [storage for storage in STORAGES if summaries[storage] != summaries["csv"]]
                part = [key for key in ("format", "fields", "checks") if any(
                    summaries[storage].get(key) != summaries["csv"].get(key) for storage in different)]
                violation = core.Violation("cid-summaries-differ-between-storages",
                                           ["storage=" + storage for storage in different] + ["part=" + key for key in part],
                                           "data format %s: %r" % (data_format, summaries))
            if violation is None:
                storage = STORAGES[format_index]  # rotate: each data format is read with a CID from another storage
                data_path = tabular.data_path(spec)
                if scenario.get("other_table_at_same_path_first") and table:
                    # the path held other content a moment ago and was read then
                    tabular.store(fs, data_path, spec, list(reversed(table)) + [list(table[0])], features=features)
                    earlier = lib.ReadRun(cids[storage], data_path, "Reader", "continue")
                    while earlier.step():
                        pass
                    earlier.close()
                    result.probe("path-rewritten-between-two-reads")
                tabular.store(fs, data_path, spec, table, features=features)
                run = lib.ReadRun(cids[storage], data_path, "Reader", "yield")
                while run.step():
                    pass
                run.close()
                outcome = run.outcome(with_message=False)
                for item in outcome["items"]:
                    if item[0] == "err":
                        for key in ("loc", "see_also"):
                            if item[1].get(key):
                                item[1][key].pop("file", None)
                                item[1][key].pop("sheet", None)
                for key in ("raised", "closed"):
                    if isinstance(outcome[key], dict):
                        for part in ("loc", "see_also"):
                            if outcome[key].get(part):
                                outcome[key][part].pop("file", None)
                                outcome[key][part].pop("sheet", None)
                        outcome[key].pop("loc", None)
                outcomes[data_format] = outcome
                history.add("client", "read", {"format": data_format, "outcome": outcome})
        ticks += fs.ticks
    for field in logical["fields"]:
        result.probe("type:" + field["type"])
        if field.get("rule", "").endswith("ss"):
            result.probe("datetime-with-time-part")
    if logical.get("sep") == "…":
        result.probe("ellipsis-char-in-cid")
    reference = outcomes.get("delimited")
    if reference:
        for item in reference["items"]:
            if item[0] == "err":
                result.probe("check-rejection" if item[1]["class"] == "CheckError" else "rejected-row")
        if reference["closed"] not in (None, "ok"):
            result.probe("end-check-fails")
    result.nontrivial = len(table) > logical.get("header", 0)
    result.schedule_sig = [[field["type"] for field in logical["fields"]], [check[1] for check in logical["checks"]],
                           logical.get("header"), [item[0] if item[0] == "row" else item[1]["class"] for item in (reference or {"items": []})["items"]],
                           [io["regime"] for io in scenario["ios"]]]
    result.ticks = history.ticks + ticks
    result.digest = history.digest()
    result.trace = {"cid": tabular.cid_rows(dict(logical, format="delimited")), "table": table, "outcome": reference}
    if violation is not None:
        raise violation
    for data_format in DATA_FORMATS[1:]:
        if outcomes[data_format] != reference:
            keys = sorted(key for key in reference if reference[key] != outcomes[data_format].get(key))
            types = set()
            for index, (first, second) in enumerate(zip(reference["items"], outcomes[data_format]["items"])):
                if first != second:
                    culprit = (first[1] if first[0] == "err" else second[1]) if "err" in (first[0], second[0]) else None
                    cell = ((culprit or {}).get("loc") or {}).get("cell")
                    if cell is not None and cell < len(logical["fields"]):
                        types.add("type=" + logical["fields"][cell]["type"])
                    break
            raise core.Violation("verdict-differs-between-data-formats", ["format=" + data_format] + ["diff=" + key for key in keys] + sorted(types),
                                 "delimited: %r; %s: %r" % (reference, data_format, outcomes[data_format]))
    return result


def candidates(scenario):
    for candidate in lib.drop_candidates(scenario, ["table"]):
        yield candidate
    for candidate in lib.drop_candidates(scenario, ["cid", "checks"]):
        yield candidate
    fields = scenario["cid"]["fields"]
    if len(fields) > 1:
        for index in range(len(fields)):
            name = fields[index]["name"]
            if any(name in check[2] for check in scenario["cid"]["checks"]):
                continue
            candidate = copy.deepcopy(scenario)
            del candidate["cid"]["fields"][index]
            candidate["cid"]["fields"][-1]["empty"] = False
            for row in candidate["table"]:
                del row[index]
                if row[-1] == "":
                    row[-1] = tabular.FIELD_KINDS[candidate["cid"]["fields"][-1]["type"]][2][0]
            yield candidate
    for index in range(3):
        for candidate in lib.io_candidates(scenario["ios"][index], key=None) if False else []:
            yield candidate
        if scenario["ios"][index].get("regime") != "whole":
            yield lib.with_value(scenario, ["ios", index], {"regime": "whole", "io_seed": 0})
    if scenario["cid"].get("header"):
        yield lib.with_value(scenario, ["cid", "header"], 0)
    if scenario["cid"].get("sep") != ":":
        yield lib.with_value(scenario, ["cid", "sep"], ":")
    if scenario.get("ods_features"):
        yield lib.with_value(scenario, ["ods_features"], [])
    if scenario.get("other_table_at_same_path_first"):
        yield lib.with_value(scenario, ["other_table_at_same_path_first"], False)
    if scenario.get("suffix_case", "lower") != "lower":
        yield lib.with_value(scenario, ["suffix_case"], "lower")
    for index, field in enumerate(fields):
        if field.get("empty"):
            yield lib.with_value(scenario, ["cid", "fields", index, "empty"], False)
    for row_index, row in enumerate(scenario["table"]):
        for cell_index, cell in enumerate(row):
            good = fields[cell_index].get("good", tabular.FIELD_KINDS[fields[cell_index]["type"]][2])[0]
            if cell != good:
                candidate = copy.deepcopy(scenario)
                candidate["table"][row_index][cell_index] = good
                yield candidate
