#!/bin/bash
# tools/mutant_test.sh <patch.diff> <ID> [tier]  — sensitivity test: apply a patch to a scratch copy of
# /repo (under /dev/shm), run the check against it (VERIF_REPO), print its verdict, remove the copy.
# Evidence and replays of such runs go to a scratch directory, never to /verif/evidence.
patch="$(readlink -f "$1")"; id="$2"; tier="${3:-quick}"
work="$(mktemp -d /dev/shm/mutant.XXXXXX)"
trap 'rm -rf "$work"' EXIT
mkdir -p "$work/repo" "$work/evidence" "$work/replays"
git -C /repo archive HEAD | tar -x -C "$work/repo"
if ! (cd "$work/repo" && git apply --whitespace=nowarn "$patch" 2>/dev/null || patch -p1 -s < "$patch"); then
  echo "PATCH-FAILED $patch"; exit 3
fi
VERIF_REPO="$work/repo" VERIF_EVIDENCE_DIR="$work/evidence" VERIF_REPLAY_DIR="$work/replays" \
  timeout 1800 "$(dirname "$0")/../check" "$id" --tier "$tier" > "$work/out.txt" 2>&1
code=$?
grep -E "^(VIOLATION|KNOWN-FINDING|HARNESS-FAILURE|WARNING)" "$work/out.txt" | cut -c1-300 | head -8
grep -E "^violation" "$work/out.txt" | cut -c1-400 | head -3
echo "MUTANT $(basename "$(dirname "$patch")")/$(basename "$patch") check=$id exit=$code"
exit $code
