#!/venv/bin/python
"""tools/seed_refresh.py - keep every seeded regression applicable to /repo's HEAD with `git apply`.

/repo moves (fix: commits); a stored patch whose context lines were touched no longer applies cleanly.  For every
seeded/<name>/patch.diff this tries `git apply --check` on a scratch copy of HEAD; where that fails it applies the
patch with `patch -p1 --fuzz=3`, writes the regenerated diff back (the original is kept as patch.orig.diff the first
time) and notes it in meta.json.  Patches that do not apply even with fuzz are listed: they need a look."""
import glob
import json
import os
import shutil
import subprocess
import sys
import tempfile

VERIF = os.path.dirname(os.path.dirname(os.path.abspath(__file__)))


def run(command, **kwargs):
    return subprocess.run(command, stdout=subprocess.PIPE, stderr=subprocess.STDOUT, text=True, **kwargs)


def main():
    work = tempfile.mkdtemp(prefix="refresh.", dir="/dev/shm")
    head = run(["git", "-C", "/repo", "rev-parse", "--short", "HEAD"]).stdout.strip()
    clean = os.path.join(work, "clean")
    os.makedirs(clean)
    subprocess.check_call("git -C /repo archive HEAD | tar -x -C %s" % clean, shell=True)
    for command in (["git", "init", "-q", "."], ["git", "add", "-A"],
                    ["git", "-c", "user.email=verif@example.org", "-c", "user.name=verif", "commit", "-q", "-m", "base"]):
        subprocess.check_call(command, cwd=clean, stdout=subprocess.DEVNULL)
    fine, refreshed, broken = 0, [], []
    try:
        for patch in sorted(glob.glob(os.path.join(VERIF, "seeded", "*", "patch.diff"))):
            name = os.path.basename(os.path.dirname(patch))
            if run(["git", "apply", "--check", patch], cwd=clean).returncode == 0:
                fine += 1
                continue
            applied = run(["patch", "-p1", "-s", "--fuzz=3", "--no-backup-if-mismatch", "-i", patch], cwd=clean)
            if applied.returncode == 0:
                # fuzz may put a hunk into the wrong place: the result must at least still compile
                changed = run(["git", "diff", "--name-only"], cwd=clean).stdout.split()
                compiled = run([sys.executable, "-m", "py_compile"] + [name for name in changed if name.endswith(".py")], cwd=clean)
                if compiled.returncode != 0:
                    broken.append((name, ["applies only with fuzz and then does not compile"]))
                    subprocess.check_call(["git", "checkout", "-q", "--", "."], cwd=clean)
                    subprocess.check_call(["git", "clean", "-fdq"], cwd=clean)
                    continue
                diff = run(["git", "diff"], cwd=clean).stdout
                original = os.path.join(os.path.dirname(patch), "patch.orig.diff")
                if not os.path.exists(original):
                    shutil.copy(patch, original)
                with open(patch, "w", encoding="utf-8") as stream:
                    stream.write(diff)
                meta_path = os.path.join(os.path.dirname(patch), "meta.json")
                meta = json.load(open(meta_path))
                meta["patch_regenerated_for_head"] = head
                json.dump(meta, open(meta_path, "w"), indent=1, sort_keys=True)
                refreshed.append(name)
            else:
                broken.append((name, applied.stdout.strip().splitlines()[-2:]))
            subprocess.check_call(["git", "checkout", "-q", "--", "."], cwd=clean)
            subprocess.check_call(["git", "clean", "-fdq"], cwd=clean)
    finally:
        shutil.rmtree(work, ignore_errors=True)
    print("HEAD %s: %d patches apply as they are, %d regenerated (%s), %d do not apply" % (
        head, fine, len(refreshed), ", ".join(refreshed), len(broken)))
    for name, tail in broken:
        print("  DOES NOT APPLY: %s %s" % (name, tail))
    return 1 if broken else 0


if __name__ == "__main__":
    sys.exit(main())
