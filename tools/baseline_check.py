#!/venv/bin/python
"""Run the repository's pinned test suite and check that every test of the stable
baseline (/root/.vp/BASELINE.json -> stable_pass) still passes.  Exit 0 iff so."""
import json, subprocess, sys, tempfile, os
import xml.etree.ElementTree as ET

def main():
    repo = os.environ.get("VERIF_REPO", "/repo")
    base = json.load(open("/root/.vp/BASELINE.json"))
    with tempfile.TemporaryDirectory(dir="/dev/shm") as tmp:
        xml = os.path.join(tmp, "junit.xml")
        cmd = ["/venv/bin/python", "-m", "pytest", "-ra", "-q", "-p", "no:cacheprovider", "--timeout=900",
               "--continue-on-collection-errors", "--junitxml=" + xml]
        env = dict(os.environ)
        for guard in ("CUTPLACE_VERIF",):
            env.pop(guard, None)
        proc = subprocess.run(cmd, cwd=repo, env=env, stdout=subprocess.PIPE, stderr=subprocess.STDOUT, text=True)
        passed = set()
        for case in ET.parse(xml).getroot().iter("testcase"):
            bad = any(child.tag in ("failure", "error", "skipped") for child in case)
            if not bad:
                passed.add("%s::%s" % (case.get("classname"), case.get("name")))
    missing = [t for t in base["stable_pass"] if t not in passed]
    print("stable baseline: %d, passing now: %d of them (total passing %d)" % (
        len(base["stable_pass"]), len(base["stable_pass"]) - len(missing), len(passed)))
    for t in missing:
        print("NOT PASSING:", t)
    if missing:
        print(proc.stdout[-3000:])
    return 1 if missing else 0

if __name__ == "__main__":
    sys.exit(main())
