#!/venv/bin/python
"""tools/mkmutant.py <name> <file relative to repo> <old text> <new text> -> mutants/<name>.diff"""
import difflib, os, sys
name, rel, old, new = sys.argv[1:5]
old = old.encode().decode("unicode_escape"); new = new.encode().decode("unicode_escape")
src = open(os.path.join("/repo", rel), encoding="utf-8").read()
assert src.count(old) == 1, "old text occurs %d times" % src.count(old)
dst = src.replace(old, new)
diff = difflib.unified_diff(src.splitlines(True), dst.splitlines(True), "a/" + rel, "b/" + rel)
out = os.path.join(os.path.dirname(os.path.dirname(os.path.abspath(__file__))), "mutants", name + ".diff")
open(out, "w", encoding="utf-8").write("".join(diff))
print(out)
