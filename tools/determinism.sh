#!/bin/bash
# tools/determinism.sh [N=400] [seeds="0 7 13"]
# Large-sample determinism proof: for every claimed check and every listed VERIF_SEED the history digests of
# the first N seeded runs are computed in four fresh interpreters (PYTHONHASHSEED 0, 1, 4242 and random),
# all of them running at the same time (16 at once), and compared.  Any difference is printed and
# makes the script exit 1.
cd "$(dirname "$0")/.." || exit 2
N=${1:-400}
SEEDS=${2:-"0 7 13"}
OUT=/dev/shm/verif-determinism.$$
mkdir -p "$OUT"
CHECKS="C04 C05 C06 C07 C08 C09 C10 C12 C13 C14 C15 C16 C17 C18 C20"
for c in $CHECKS; do for s in $SEEDS; do for h in 0 1 4242 random; do echo "$c $s $h"; done; done; done |
  xargs -P 16 -L 1 bash -c 'PYTHONHASHSEED=$2 VERIF_SEED=$1 timeout 1200 ./check $0 --digests '"$N"' > '"$OUT"'/$0.$1.$2.txt 2>&1'
/venv/bin/python - "$OUT" "$SEEDS" $CHECKS <<'PY'
import json, sys
out, seeds, checks = sys.argv[1], sys.argv[2].split(), sys.argv[3:]
status = 0
for check in checks:
    for seed in seeds:
        tables = {}
        for hashseed in ("0", "1", "4242", "random"):
            text = open("%s/%s.%s.%s.txt" % (out, check, seed, hashseed)).read().strip().splitlines()
            try:
                tables[hashseed] = json.loads(text[-1])
            except (ValueError, IndexError):
                print("NO DIGESTS: %s VERIF_SEED=%s PYTHONHASHSEED=%s: %s" % (check, seed, hashseed, text[-3:]))
                status = 1
        if len(tables) == 4:
            reference = tables["0"]
            different = sorted({index for table in tables.values() for index in set(table) | set(reference)
                                if table.get(index) != reference.get(index)}, key=int)
            if different:
                print("DIFFERENT: %s VERIF_SEED=%s run indices %s" % (check, seed, different[:10]))
                status = 1
            else:
                print("%s VERIF_SEED=%s: %d history digests, equal in 4 fresh interpreters" % (check, seed, len(reference)))
sys.exit(status)
PY
status=$?
rm -rf "$OUT"
exit $status
