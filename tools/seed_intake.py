#!/venv/bin/python
"""tools/seed_intake.py <dir with patch.diff, demo.py, notes.md> <property id> [check ids ...]

Confirms a seeded regression independently (scratch copies under /dev/shm, removed afterwards):
 1. the patch applies to /repo's HEAD,
 2. the pinned test suite still passes with it (stable baseline),
 3. the demonstration fails with the patch and passes without it,
then runs the listed checks (default: the property's own check) against the patched copy and stores
everything as /verif/seeded/<name>/ (patch.diff, demo.py, notes.md, meta.json)."""
import json
import os
import shutil
import subprocess
import sys
import tempfile

VERIF = os.path.dirname(os.path.dirname(os.path.abspath(__file__)))


def run(command, **kwargs):
    return subprocess.run(command, stdout=subprocess.PIPE, stderr=subprocess.STDOUT, text=True, **kwargs)


def main():
    source = os.path.abspath(sys.argv[1])
    prop = sys.argv[2]
    checks = sys.argv[3:] or [prop]
    name = os.path.basename(source.rstrip("/"))
    work = tempfile.mkdtemp(prefix="seed.", dir="/dev/shm")
    meta = {"name": name, "breaks_property": prop, "ran": []}
    try:
        clean, patched = os.path.join(work, "clean"), os.path.join(work, "patched")
        for target in (clean, patched):
            os.makedirs(target)
            subprocess.check_call("git -C /repo archive HEAD | tar -x -C %s" % target, shell=True)
        head = run(["git", "-C", "/repo", "rev-parse", "--short", "HEAD"]).stdout.strip()
        meta["repo_head"] = head
        for command in (["git", "init", "-q", "."], ["git", "add", "-A"],
                        ["git", "-c", "user.email=verif@example.org", "-c", "user.name=verif", "commit", "-q", "-m", "base"]):
            subprocess.check_call(command, cwd=patched, stdout=subprocess.DEVNULL)
        applied = run(["git", "apply", os.path.join(source, "patch.diff")], cwd=patched)
        meta["git_apply_clean"] = applied.returncode == 0
        if applied.returncode != 0:
            applied = run(["patch", "-p1", "-s", "--fuzz=3", "-i", os.path.join(source, "patch.diff")], cwd=patched)
        refreshed = run(["git", "diff"], cwd=patched).stdout if applied.returncode == 0 else None
        meta["ran"].append({"cmd": "git apply patch.diff (else patch -p1 --fuzz=3) on a scratch copy of /repo@%s" % head,
                            "exit": applied.returncode})
        if applied.returncode != 0:
            print("PATCH DOES NOT APPLY:\n" + applied.stdout)
            return 3
        baseline = run(["/venv/bin/python", os.path.join(VERIF, "tools", "baseline_check.py")],
                       env=dict(os.environ, VERIF_REPO=patched))
        meta["ran"].append({"cmd": "tools/baseline_check.py with the patch", "exit": baseline.returncode,
                            "tail": baseline.stdout.strip().splitlines()[-1:]})
        demo_patched = run(["/venv/bin/python", os.path.join(source, "demo.py")], cwd=patched, timeout=600)
        demo_clean = run(["/venv/bin/python", os.path.join(source, "demo.py")], cwd=clean, timeout=600)
        meta["ran"].append({"cmd": "demo.py with the patch", "exit": demo_patched.returncode,
                            "tail": demo_patched.stdout.strip().splitlines()[-3:]})
        meta["ran"].append({"cmd": "demo.py without the patch", "exit": demo_clean.returncode})
        confirmed = baseline.returncode == 0 and demo_patched.returncode != 0 and demo_clean.returncode == 0
        meta["confirmed"] = confirmed
        print("%s: patch applies, baseline exit %d, demo patched exit %d, demo clean exit %d -> %s" % (
            name, baseline.returncode, demo_patched.returncode, demo_clean.returncode,
            "CONFIRMED" if confirmed else "NOT CONFIRMED"))
        detections = {}
        for check in checks:
            evidence, replays = os.path.join(work, "evidence"), os.path.join(work, "replays")
            os.makedirs(evidence, exist_ok=True)
            os.makedirs(replays, exist_ok=True)
            env = dict(os.environ, VERIF_REPO=patched, VERIF_EVIDENCE_DIR=evidence, VERIF_REPLAY_DIR=replays)
            tier = os.environ.get("SEED_TIER", "quick")
            result = run([os.path.join(VERIF, "check"), check, "--tier", tier], env=env, timeout=3600)
            lines = [line[:300] for line in result.stdout.splitlines() if line.startswith(("VIOLATION", "violation:", "HARNESS"))]
            detections[check] = {"exit": result.returncode, "tier": tier, "lines": lines[:4]}
            print("  check %s (%s): exit %d %s" % (check, tier, result.returncode, "DETECTED" if result.returncode == 1 else "missed"))
            for line in lines[:2]:
                print("    " + line[:260])
        meta["checks"] = detections
        if confirmed:
            target = os.path.join(VERIF, "seeded", name)
            os.makedirs(target, exist_ok=True)
            for item in ("patch.diff", "demo.py", "notes.md"):
                if os.path.exists(os.path.join(source, item)) and os.path.abspath(source) != os.path.abspath(target):
                    shutil.copy(os.path.join(source, item), os.path.join(target, item))
            if refreshed and not meta["git_apply_clean"]:
                # the patch needed fuzz on the current HEAD: store it re-generated so that `git apply` works
                with open(os.path.join(target, "patch.diff"), "w", encoding="utf-8") as stream:
                    stream.write(refreshed)
                meta["patch_regenerated_for_head"] = head
            previous = {}
            meta_path = os.path.join(target, "meta.json")
            if os.path.exists(meta_path):
                previous = json.load(open(meta_path))
                merged = previous.get("checks", {})
                merged.update(detections)
                meta["checks"] = merged
                if "needs_to_manifest" in previous:
                    meta["needs_to_manifest"] = previous["needs_to_manifest"]
            notes = os.path.join(source, "notes.md")
            if "needs_to_manifest" not in meta and os.path.exists(notes):
                meta["needs_to_manifest"] = "see notes.md"
            json.dump(meta, open(meta_path, "w"), indent=1, sort_keys=True)
        return 0 if confirmed else 4
    finally:
        shutil.rmtree(work, ignore_errors=True)


if __name__ == "__main__":
    sys.exit(main())
