#!/bin/bash
# tools/seed_matrix.sh [seeds...] — detection robustness: run every seeded regression against the check of its own
# property under several VERIF_SEED values; writes seeded/MATRIX.md (one row per seed, one column per VERIF_SEED).
cd "$(dirname "$0")/.."
seeds="${@:-1 2 3}"
out=seeded/MATRIX.md
{
echo "# Detection of the seeded regressions by the quick tier of their own property's check"
echo
echo "One run per (seed, VERIF_SEED); 1 = VIOLATION reported (exit 1), 0 = not detected, 2 = harness failure."
echo "C10-4 needs a history and is run against C08."
echo
echo "| seed | check | $(for s in $seeds; do echo -n "VERIF_SEED=$s | "; done)"
echo "|---|---|$(for s in $seeds; do echo -n "---|"; done)"
for dir in seeded/*/; do
  name=$(basename "$dir"); id=${name%-*}; check=$id
  [ "$name" = "C10-4" ] && check=C08
  row="| $name | $check |"
  for s in $seeds; do
    code=$(VERIF_SEED=$s tools/mutant_test.sh "$dir/patch.diff" "$check" 2>/dev/null | tail -1 | sed 's/.*exit=//')
    row="$row $code |"
  done
  echo "$row"
done
} > "$out.tmp" && mv "$out.tmp" "$out"
cat "$out" | tail -62
