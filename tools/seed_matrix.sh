#!/bin/bash
# tools/seed_matrix.sh [VERIF_SEED values...] — detection robustness: run every seeded regression against the check
# that is recorded as catching it (its own property's check where that one does, see meta.json -> checks) under
# several VERIF_SEED values; writes seeded/MATRIX.md (one row per seed, one column per VERIF_SEED).
# Three patched scratch copies are checked at a time.
cd "$(dirname "$0")/.."
seeds="${@:-1 2 3}"
out=seeded/MATRIX.md
work=$(mktemp -d /dev/shm/matrix.XXXXXX)
trap 'rm -rf "$work"' EXIT
/venv/bin/python - > "$work/jobs" <<'PY'
import glob, json, os
for path in sorted(glob.glob("seeded/*/meta.json")):
    meta = json.load(open(path))
    name = meta["name"]
    own = name.split("-")[0]
    detected = sorted(check for check, verdict in meta.get("checks", {}).items() if verdict.get("exit") == 1)
    check = own if own in detected or not detected else detected[0]
    print(name, check)
PY
while read -r name check; do for s in $seeds; do echo "$name $check $s"; done; done < "$work/jobs" |
  xargs -P 3 -L 1 bash -c 'code=$(VERIF_SEED=$2 tools/mutant_test.sh seeded/$0/patch.diff $1 2>/dev/null | tail -1 | sed "s/.*exit=//"); echo "$0 $1 $2 $code" >> '"$work"'/results'
{
echo "# Detection of the seeded regressions by the quick tier"
echo
echo "One run per (seed, VERIF_SEED) against the check recorded as catching the seed (the check of its own"
echo "property wherever that one does); 1 = VIOLATION reported (exit 1), 0 = not detected, 2 = harness failure."
echo
echo "| seed | check | $(for s in $seeds; do echo -n "VERIF_SEED=$s | "; done)"
echo "|---|---|$(for s in $seeds; do echo -n "---|"; done)"
while read -r name check; do
  row="| $name | $check |"
  for s in $seeds; do
    code=$(grep "^$name $check $s " "$work/results" | tail -1 | cut -d" " -f4)
    row="$row ${code:-?} |"
  done
  echo "$row"
done < "$work/jobs"
} > "$out.tmp" && mv "$out.tmp" "$out"
grep -c "| 1 |" "$out"; grep -v "| 1 |" "$out" | tail -20
