#!/bin/bash
# tools/mutants_all.sh — run every hand-written mutant in mutants/ against the check named by its file name
# prefix (c08_xxx.diff -> C08). Prints one line per mutant; exit 0 iff every applicable mutant is detected.
cd "$(dirname "$0")/.."
fail=0
for patch in mutants/*.diff; do
  id=$(basename "$patch" | cut -c1-3 | tr a-z A-Z)
  out=$(tools/mutant_test.sh "$patch" "$id" 2>&1 | tail -1)
  echo "$out"
  case "$out" in *"exit=1") ;; *) fail=1;; esac
done
exit $fail
