#!/venv/bin/python
"""Regenerate /verif/MANIFEST.json from the table below and validate it against the schema."""
import json
import os
import subprocess
import sys

VERIF = os.path.dirname(os.path.dirname(os.path.abspath(__file__)))

NOT_APPLICABLE = {
    "C01": "pure function (range description text, probe value) -> accept/reject/limits; no stream, state, fault, "
           "history or schedule in statement, quantifier or anchors - only input generation would remain, which is "
           "a different technique than deterministic simulation with fault injection",
    "C02": "pure function (field declaration, data-format settings, cell text) -> native value or rejection; field "
           "formats are stateless after construction; nothing for a schedule or fault to act on",
    "C03": "the three guards are stateless per-cell predicates evaluated in a fixed order inside one call; the "
           "property is a product over types x flags x cells, i.e. input enumeration, not a simulation target",
    "C11": "pure function (property name, spelling of the value, chosen format) -> setting or refusal; the pairwise "
           "consistency rules are a finite table over settings; no stream, state or fault",
    "C19": "pure function CID -> DDL text; no I/O in the statement, no state, no fault, no history",
}

# id -> (level, technique, level text, level note, design ref)
CLAIMED = {
    "C08": ("exploration",
            "deterministic simulation: seeded histories of reads/writes on one shared Cid, differential oracle "
            "against a fresh Cid in a fresh simulated world",
            "Seeded search over histories (run kinds, abandonment points, close placement, API flavour, error mode, "
            "chunk schedule) with a differential oracle; evidence, not proof.",
            "Runs of one history do not overlap; SimFS/SimRaw stand in for the disk; all of cutplace, csv and the "
            "io stack run as real code.",
            "DESIGN.md section 5, C08"),
    "C04": ("exploration",
            "deterministic simulation: seeded tables stored by independent peers in simulated storage, read through the "
            "real readers under seeded chunk schedules by an eager or lazy (late-inspecting) client; reference reader "
            "model as oracle",
            "Seeded search over CIDs x tables x 4 formats x sources x chunk schedules x consumer lag; every yielded item "
            "is compared with a reference model, held errors are re-inspected later; evidence, not proof.",
            "Per-cell verdicts are asked from the real field on a private Cid (C01-C03 not re-modelled); peers "
            "(text/ODF/XLSX encoders) are written from the specifications.",
            "DESIGN.md section 5, C04"),
    "C05": ("exploration",
            "deterministic simulation: seeded row sequences over tiny key alphabets fed step by step, optional other "
            "data set validated before on the same Cid, reference model (dict / set) as oracle",
            "Seeded search over key sets, operators, thresholds, declaration orders, interleaved rejected rows, error "
            "modes and close placement against a reference model; evidence, not proof.",
            "A row reaches a check iff its cells were accepted and no earlier-declared check rejected it; at most one "
            "IsUnique per CID.",
            "DESIGN.md section 5, C05"),
    "C06": ("exploration",
            "deterministic simulation with fault injection: the same stored bytes read in the three error modes under "
            "different chunk schedules; one container fault (unterminated quote, undecodable bytes, short record, wrong "
            "delimiter, truncated / corrupted / incomplete archive) placed at a row boundary; prefix oracle",
            "Seeded search; fault-free reads are compared with the reference model and with each other, faulted reads "
            "must end in DataFormatError after a prefix of the intact rows in every mode; evidence, not proof.",
            "Under a fault only a prefix is required (read-ahead decides where the fault surfaces); raise mode may stop "
            "at an ordinary rejection in front of the fault.",
            "DESIGN.md section 5, C06"),
    "C07": ("exploration",
            "deterministic simulation: seeded tables with garbage header rows read through every API that takes the "
            "limit (incl. main --until) plus a bounded boundary sweep; container fault placed right behind the limit; "
            "reference reader model with header and limit",
            "Seeded search plus an exhaustive sweep of the named boundary set (header 0-3 x one bad row at every position x "
            "every limit x 6 API flavours); evidence, not proof beyond the swept sub-space.",
            "CIDs here carry no end-of-data check; the command line runs in-process over simulated storage.",
            "DESIGN.md section 5, C07"),
    "C12": ("exploration",
            "deterministic simulation: write -> simulated storage (short writes) -> read (short reads) pipeline over "
            "every configuration the real loader accepts; conservation oracle (rows out = rows in, exactly once, in order)",
            "Seeded search over configuration x table x target x source x chunk schedule plus a sweep offering all 5120 "
            "configurations to the loader; evidence, not proof.",
            "The domain is what DataFormat.set_property/validate accepts; rows have >= 1 column.",
            "DESIGN.md section 5, C12"),
    "C13": ("exploration",
            "deterministic simulation with fault injection: well-formed fixed files with one character deleted / inserted / "
            "replaced, random strings, three ways in (StringIO, chunked stream, path), a prior reader abandoned in the same "
            "process; RefFixed enumerates all parses as oracle; bounded sweep of all short strings",
            "Seeded search plus exhaustive sweep of all strings up to length 5 (quick) / 9 (thorough) over {a,b,CR,LF} x 39 "
            "width lists x 5 settings; evidence, not proof beyond the swept sub-space.",
            "Under 'any' an input whose maximal-munch parse is invalid but which has another parse may be accepted or "
            "rejected.",
            "DESIGN.md section 5, C13"),
    "C14": ("exploration",
            "deterministic simulation: seeded histories of write_row / write_rows calls (accepted, rejected, duplicate rows) "
            "on a CID-bound Writer over StringIO or simulated storage with short writes and a seamed os.linesep; "
            "per-op conservation invariant and read-back under a fresh Cid",
            "Seeded search with invariants after every operation and a final read-back; evidence, not proof.",
            "Acceptance is modelled on the values as passed; header rows are emitted unvalidated by design.",
            "DESIGN.md section 5, C14"),
    "C20": ("exploration",
            "deterministic simulation: recording plug-in classes resolved through real CIDs; seeded histories of reader / "
            "writer runs (modes, limit, abandonment, double close, another Cid used before in the same process); the "
            "recorded call history must equal the sequence predicted by a reference model of the protocol",
            "Seeded search over histories with a trace-equality oracle; evidence, not proof.",
            "Order of reset / cleanup among checks is free; after a failing end verdict the remaining checks need not be "
            "asked; verdicts for empty cells are taken from the real field.",
            "DESIGN.md section 5, C20"),
    "C15": ("exploration",
            "deterministic simulation with fault injection: independent ODF encoder with 12 optional encoding features -> "
            "simulated storage -> real zipfile/ElementTree/ods_rows under short reads; one fault per faulted run "
            "(truncation, cut XML, missing member, not a zip, corrupted member bytes, bad repeat counts, missing sheet); "
            "logical table as oracle; bounded sweep of truncation offsets and tag boundaries",
            "Seeded search plus sweep (every 64th byte / every tag boundary of a few base documents; denser in the thorough "
            "tier); evidence, not proof.",
            "The peer is written from the ODF specification and cross-checked by an independent reference decoder in every "
            "fault-free run.",
            "DESIGN.md section 5, C15"),
    "C16": ("exploration",
            "deterministic simulation (pipeline through simulated storage): independent XLSX encoder / real xlsxwriter -> "
            "SimFS -> xlrd -> excel_rows, directly or through Reader with the Sheet property; documented rendering as "
            "oracle; writer -> storage -> reader conservation",
            "Seeded search over cell kinds, magnitudes, dates, sheets; the reach comes mostly from the workload, the "
            "simulator contributes the storage pipeline; evidence, not proof.",
            "Numbers render as repr(float) without trailing .0; a workbook cannot represent trailing empty text cells.",
            "DESIGN.md section 5, C16"),
    "C17": ("exploration",
            "deterministic simulation (pipeline through simulated storage): one logical CID stored as csv/ods/xlsx and one "
            "logical table stored as delimited/ods/excel, 9 combinations per case under different chunk schedules; "
            "differential oracle between the storages",
            "Seeded search with a differential oracle (equal CID summaries, equal per-row outcomes); evidence, not proof.",
            "Cells are stored as text; the last column is never empty and rows are not ragged.",
            "DESIGN.md section 5, C17"),
    "C18": ("exploration",
            "deterministic simulation with fault injection: applications.main(argv) in-process over simulated storage with "
            "ENOENT / EISDIR faults on CID and data files, file lists in two orders (history on the shared Cid), --until; "
            "RefCli from per-file API verdicts",
            "Seeded search over CID kind x ordered file lists x --until x format x argument errors; evidence, not proof.",
            "Where the statement gives two exit codes both are accepted, but not a dependence on the file order.",
            "DESIGN.md section 5, C18"),
    "C09": ("fault_enumeration",
            "single-fault campaign on a stored document (deterministic simulation's fault-injection half): generated valid "
            "CIDs stored as rows/csv/ods/xlsx in simulated storage, 0-4 meaning-preserving rewrites and at most one defect "
            "from a catalogue of ~50 structural defects at an applicable row; differential oracle for rewrites, "
            "'InterfaceError naming that row' for defects",
            "Seeded fault enumeration plus an exhaustive sweep of every catalogue defect at every applicable row of a set of "
            "base CIDs; weak fit for the technique (no schedule dimension beyond storage and chunking), said so in DESIGN.md.",
            "Base CIDs come from a conservative grammar sound by construction; the catalogue is limited to what the "
            "statement lists.",
            "DESIGN.md section 5, C09"),
    "C10": ("fault_enumeration",
            "fault enumeration under the simulator: every cell of valid base CIDs and data replaced one at a time by each "
            "member of a hostile pool (exhaustive sweep), seeded pairs, and container faults (truncate, bit flip, "
            "undecodable bytes, open quote, short record) on stored CID / data files incl. the repository's xls/ods/xlsx "
            "fixtures; oracle: only InterfaceError / DataError escape, main() never answers 4",
            "Exhaustive single-cell sweep over 5 base CIDs and their data plus seeded pairs and container faults; "
            "evidence, not proof outside the swept sub-space.",
            "Both error classes are allowed in both phases; child processes run under a 2 GiB address-space limit so that "
            "giant allocations surface as MemoryError instead of killing the check.",
            "DESIGN.md section 5, C10"),
}

PENDING = {key: "designed as a simulation target in DESIGN.md section 5; its check is still under construction and is "
                "therefore not claimed yet" for key in
           ["C04", "C05", "C06", "C07", "C09", "C10", "C12", "C13", "C14", "C15", "C16", "C17", "C18", "C20"]}


def main():
    checks = []
    for prop_id in sorted(CLAIMED):
        level, technique, text, note, ref = CLAIMED[prop_id]
        checks.append({
            "property_id": prop_id,
            "quick_cmd": "./check %s --tier quick" % prop_id,
            "thorough_cmd": "./check %s --tier thorough" % prop_id,
            "evidence_file": "/verif/evidence/%s.json" % prop_id,
            "replay_cmd_template": "./check %s --replay {path}" % prop_id,
            "engine": "sim",
            "level_claimed": {"category": level, "text": text, "design_ref": ref},
            "level_note": note,
            "technique": technique,
        })
    not_applicable = [{"property_id": key, "reason": value} for key, value in sorted(NOT_APPLICABLE.items())]
    for key, value in sorted(PENDING.items()):
        if key not in CLAIMED:
            not_applicable.append({"property_id": key, "reason": value})
    manifest = {
        "version": 1,
        "setup_cmd": "./setup.sh",
        "hooks": {
            "guard": "CUTPLACE_VERIF",
            "enable": "no hooks exist in /repo: every seam is a module attribute of cutplace.rowio / cutplace.sql "
                      "replaced from outside for the duration of a simulated run; checks import cutplace from "
                      "/repo's working tree on every invocation",
            "baseline_off_cmd": "/verif/tools/baseline_check.py",
            "source_commits": [],
            "add_only": True,
        },
        "engines": [{
            "name": "sim",
            "path": "/verif/sim",
            "serves_properties": sorted(CLAIMED),
            "kind_free_text": "deterministic simulation with fault injection: seeded scheduler-driven client, "
                              "simulated storage with short reads/writes and injected faults, in-process peers, "
                              "reference models and differential oracles, delta-debugging shrinker, replay files",
        }],
        "checks": checks,
        "not_applicable": sorted(not_applicable, key=lambda item: item["property_id"]),
        "notes": "Exit codes of ./check: 0 held (KNOWN-FINDING lines allowed), 1 VIOLATION (minimised and replayed in "
                 "a fresh interpreter), 2 harness failure. Env: VERIF_SEED, VERIF_TIER, VERIF_BUDGET_S (thorough, "
                 "default 600), VERIF_WORKERS (default 16), VERIF_REPO (default /repo), VERIF_RUNS (override quick "
                 "run count). fix: commits in /repo and known findings are listed in /verif/known_findings.json.",
    }
    path = os.path.join(VERIF, "MANIFEST.json")
    with open(path, "w", encoding="utf-8") as stream:
        json.dump(manifest, stream, indent=1)
        stream.write("\n")
    ids = {json.loads(line)["id"] for line in open(os.path.join(VERIF, "properties.jsonl"), encoding="utf-8") if line.strip()}
    covered = set(CLAIMED) | {item["property_id"] for item in not_applicable}
    assert covered == ids, (sorted(ids - covered), sorted(covered - ids))
    code = subprocess.call(["python3-vt", "-c", (
        "import json,jsonschema;"
        "jsonschema.validate(json.load(open('%s')), json.load(open('/root/.vp/MANIFEST.schema.json')));"
        "print('MANIFEST.json valid')") % path])
    return code


if __name__ == "__main__":
    sys.exit(main())
