"""Recording plug-ins: user-defined field formats and checks as a third party would write them.

They are direct subclasses of cutplace's abstract bases, defined once per process, resolved by class
name through the CID ("RecA" -> RecAFieldFormat, "RecX" -> RecXCheck).  Every protocol hook appends an
event to ``LOG`` (when it is a list); verdicts are table driven by the cell / rule text:

* a field's value hook rejects values containing "!"
* a check with rule "veto=<c>" vetoes rows whose first cell contains <c>; "end=fail" fails at the end
"""
from cutplace import checks, errors, fields

LOG = None


def set_log(log):
    global LOG
    LOG = log


def _record(*event):
    if LOG is not None:
        LOG.append(list(event))


class _RecordingFieldFormat(object):
    def validated_value(self, value):
        _record("value", self.field_name, value)
        if "!" in value:
            raise errors.FieldValueError("value hook of %s rejects %r" % (self.field_name, value))
        return value


class RecAFieldFormat(_RecordingFieldFormat, fields.AbstractFieldFormat):
    def __init__(self, field_name, is_allowed_to_be_empty, length, rule, data_format):
        super().__init__(field_name, is_allowed_to_be_empty, length, rule, data_format, empty_value="")


class RecBFieldFormat(_RecordingFieldFormat, fields.AbstractFieldFormat):
    def __init__(self, field_name, is_allowed_to_be_empty, length, rule, data_format):
        super().__init__(field_name, is_allowed_to_be_empty, length, rule, data_format, empty_value="")


class _RecordingCheck(object):
    def _configure(self):
        self._veto = None
        self._fail_at_end = False
        for part in self.rule.split(";"):
            part = part.strip()
            if part.startswith("veto="):
                self._veto = part[len("veto="):]
            elif part == "end=fail":
                self._fail_at_end = True

    def reset(self):
        _record("reset", self.description)

    def check_row(self, field_name_to_value_map, location):
        first_value = field_name_to_value_map[self.field_names[0]]
        _record("row", self.description, [field_name_to_value_map[name] for name in self.field_names], location.line)
        if self._veto is not None and self._veto in first_value:
            raise errors.CheckError("check %s vetoes row with %r" % (self.description, first_value), location)

    def check_at_end(self, location):
        _record("end", self.description)
        if self._fail_at_end:
            raise errors.CheckError("check %s fails at the end" % self.description, location)

    def cleanup(self):
        _record("cleanup", self.description)


class RecXCheck(_RecordingCheck, checks.AbstractCheck):
    def __init__(self, description, rule, available_field_names, location=None):
        super().__init__(description, rule, available_field_names, location)
        self._configure()


class RecYCheck(_RecordingCheck, checks.AbstractCheck):
    def __init__(self, description, rule, available_field_names, location=None):
        super().__init__(description, rule, available_field_names, location)
        self._configure()
