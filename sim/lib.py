"""Shared pieces for the property modules: the scheduler-driven client (read / write tasks that
advance the real API one step at a time), error summaries, small text peers, generic shrinking
helpers and the per-cell oracle that asks the *real* field on a private CID."""
import copy
import io

from sim import core, simfs


# --------------------------------------------------------------------------------------------
# summaries
# --------------------------------------------------------------------------------------------
def location_summary(location):
    if location is None:
        return None
    if not hasattr(location, "file_path"):
        return {"not-a-location": repr(location)}
    result = {"file": location.file_path, "line": location.line}
    if getattr(location, "_has_cell", False):
        result["cell"] = location.cell
    if getattr(location, "_has_sheet", False):
        result["sheet"] = location.sheet
    return result


def error_summary(error, with_message=True):
    """Reduce an exception to what oracles compare: class, location, see-also line, message."""
    from cutplace import errors as cutplace_errors

    result = {"class": type(error).__name__, "is_data_error": isinstance(error, cutplace_errors.DataError)}
    if isinstance(error, cutplace_errors.DataFormatError):
        result["is_format_error"] = True
    location = getattr(error, "location", None)
    result["loc"] = location_summary(location)
    see_also = getattr(error, "see_also_location", None)
    result["see_also"] = location_summary(see_also)
    if with_message:
        message = getattr(error, "message", None)
        result["message"] = message if isinstance(message, str) else str(error)
    return result


def is_cutplace_error(cutplace_errors, error):
    return isinstance(error, cutplace_errors.CutplaceError)


class Hang(BaseException):
    """The system under test did not come back within the deadline (BaseException: it must pass through the
    ``except Exception`` clauses of the code under test)."""


def call_with_deadline(seconds, function, *args, **kwargs):
    """Like ``call`` but gives up after ``seconds`` of wall clock: ("hang", Hang).  Only for code paths where
    non-termination is a possible outcome that an oracle wants to judge (the run-level watchdog stays armed)."""
    import signal

    def give_up(signum, frame):
        raise Hang("no result after %s s" % seconds)

    previous_handler = signal.signal(signal.SIGALRM, give_up)
    previous_delay, _ = signal.setitimer(signal.ITIMER_REAL, seconds)
    try:
        return call(function, *args, **kwargs)
    except Hang as error:
        return "hang", error
    finally:
        signal.signal(signal.SIGALRM, previous_handler)
        signal.setitimer(signal.ITIMER_REAL, max(1.0, previous_delay - seconds) if previous_delay else 0)


def call(function, *args, **kwargs):
    """("ok", value) or ("exc", exception) — every Exception of the system under test is an outcome."""
    try:
        return "ok", function(*args, **kwargs)
    except (Exception, SystemExit) as error:  # noqa: B902 - the oracle decides what an exception means
        # SystemExit too: a library call that ends the process (a rule evaluated as Python calling exit()) is an outcome
        return "exc", error


# --------------------------------------------------------------------------------------------
# CID helpers
# --------------------------------------------------------------------------------------------
def load_cid(rows, name="cid"):
    """Fresh ``Cid`` from rows through the real loader."""
    from cutplace import interface

    cid = interface.Cid()
    cid.read(name, [list(row) for row in rows])
    return cid


def cell_verdicts(cid_rows, table):
    """Per-cell accept/reject for every cell of ``table`` that has a field, asked from the real
    field format on a private, freshly loaded CID (never modelled).  Returns list of lists of
    bool (True = accepted); cells beyond the field count are not judged."""
    from cutplace import errors

    cid = load_cid(cid_rows, "oracle-cid")
    formats = cid.field_formats
    result = []
    for row in table:
        verdicts = []
        for index, cell in enumerate(row[: len(formats)]):
            try:
                formats[index].validated(cell)
                verdicts.append(True)
            except errors.FieldValueError:
                verdicts.append(False)
        result.append(verdicts)
    return result


# --------------------------------------------------------------------------------------------
# text peers (independent of csv.writer / cutplace writers)
# --------------------------------------------------------------------------------------------
def render_delimited(table, delimiter=",", quote='"', eol="\n", final_eol=True, quote_all=False):
    lines = []
    for row in table:
        cells = []
        for cell in row:
            needs = quote_all or any(ch in cell for ch in (delimiter, quote, "\r", "\n")) or cell == "" and len(row) == 1
            if needs:
                cells.append(quote + cell.replace(quote, quote + quote) + quote)
            else:
                cells.append(cell)
        lines.append(delimiter.join(cells))
    text = eol.join(lines)
    if lines and final_eol:
        text += eol
    return text


def render_fixed(table, widths, eol="\n", final_eol=True):
    lines = []
    for row in table:
        lines.append("".join(cell.ljust(width) for cell, width in zip(row, widths)))
    eol = eol or ""
    text = eol.join(lines)
    if lines and final_eol:
        text += eol
    return text


# --------------------------------------------------------------------------------------------
# the client: step-wise use of the real API
# --------------------------------------------------------------------------------------------
PREAMBLE = "# exported by the accounting system, 3 records follow\n"


def stream_behind_preamble(fs, path, data, encoding, kind):
    """A text stream whose first line the caller has already consumed itself (a banner, a ``sep=;`` hint): the
    data handed to cutplace begin at the stream's current position.  kind: "stream" (simulated file) | "stringio"."""
    if kind == "stream":
        fs.store(path, PREAMBLE.encode(encoding) + data)
        stream = fs.text_stream(path, encoding=encoding, newline="")
    else:
        stream = io.StringIO(PREAMBLE + data.decode(encoding), newline="")
    consumed = stream.readline()
    assert consumed == PREAMBLE, consumed
    return stream


#: what the simulated caller writes over every row it has received and copied
SCRIBBLE = ["<overwritten by the caller>"]


class ReturnedRowChanged(Exception):
    """A row object handed out by a reader was modified by the reader afterwards."""


class CallerRowsChanged(Exception):
    """A writer modified the row objects the caller passed in."""


def collect_rows(iterable):
    """Like ``[list(row) for row in iterable]`` but also notices a reader that goes on using (re-filling) a row
    object after it has handed it out: a returned row belongs to the caller."""
    kept, copies = [], []
    for row in iterable:
        kept.append(row)
        copies.append(list(row))
        if isinstance(row, list):
            row[:] = SCRIBBLE  # a returned row belongs to the caller, who may do with it what they like
    for index, (row, copy_) in enumerate(zip(kept, copies)):
        if list(row) != (SCRIBBLE if isinstance(row, list) else copy_):
            raise ReturnedRowChanged("row %d was %r when returned, then overwritten by the caller, and is %r now" % (
                index, copy_, list(row)))
    return copies


def check_rows_untouched(given, original):
    if [list(row) for row in given] != [list(row) for row in original]:
        raise CallerRowsChanged("rows passed to the writer were %r and are %r now" % (original, given))


class ReadRun(object):
    """One read through the real API, advanced by ``step()``; records everything it sees.

    apis: "Reader" (Reader.rows + Reader.close), "rows" (cutplace.rows generator),
    "validate" (cutplace.validate, single step), "validate_rows" (Reader.validate_rows + close).
    """

    def __init__(self, cid, source, api="Reader", mode="raise", until=None):
        from cutplace import validio

        self.api = api
        self.mode = mode
        self.items = []  # ["row", row] | ["err", summary]
        self.held = []  # (error object, summary when yielded, item index)
        self.held_rows = []  # (row object as handed out, its content at that moment, item index)
        self.raised = None  # exception object escaping a step
        self.exhausted = False
        self.closed = None  # None | "ok" | exception object
        self.reader = None
        self.generator = None
        self._validio = validio
        self._cid = cid
        self._source = source
        self._until = until
        self._done_single = False
        if api in ("Reader", "validate_rows"):
            self.reader = validio.Reader(cid, source, on_error=mode, validate_until=until)
            if api == "Reader":
                self.generator = self.reader.rows()
        elif api == "rows":
            self.generator = validio.rows(cid, source, on_error=mode, validate_until=until)

    @property
    def finished(self):
        return self.exhausted or self.raised is not None

    def step(self):
        """Advance by one step.  Returns False when nothing more can be stepped."""
        if self.finished:
            return False
        if self.api == "validate":
            status, value = call(self._validio.validate, self._cid, self._source, validate_until=self._until)
            if status == "exc":
                self.raised = value
            self.exhausted = True
            return True
        if self.api == "validate_rows":
            status, value = call(self.reader.validate_rows)
            if status == "exc":
                self.raised = value
            self.exhausted = True
            return True
        try:
            item = next(self.generator)
        except StopIteration:
            self.exhausted = True
            return True
        except Exception as error:  # noqa: B902
            self.raised = error
            return True
        if isinstance(item, Exception):
            summary = error_summary(item)
            self.held.append((item, summary, len(self.items)))
            self.items.append(["err", summary])
        else:
            self.items.append(["row", list(item)])
            self.held_rows.append((item, list(item), len(self.items) - 1))
            if isinstance(item, list):
                item[:] = SCRIBBLE  # the caller is done with the row and reuses the list for something else
        return True

    def close(self):
        if self.closed is not None:
            return
        if self.api in ("Reader", "validate_rows"):
            status, value = call(self.reader.close)
        elif self.api == "rows":
            status, value = call(self.generator.close)
        else:
            status, value = "ok", None
        self.closed = "ok" if status == "ok" else value

    def held_changed(self):
        """First yielded error whose summary is no longer what it was when it was yielded, or None."""
        for error, summary, index in self.held:
            now = error_summary(error)
            if now != summary:
                return index, summary, now
        return None

    def rows_changed(self):
        """First returned row whose content is no longer what it was when it was handed out (a row belongs to
        the caller from then on), or None."""
        for row, content, index in self.held_rows:
            if list(row) != (SCRIBBLE if isinstance(row, list) else content):
                return index, content, list(row)
        return None

    def stream_closed_behind_callers_back(self):
        """A stream handed in by the caller is opened and closed by the caller: cutplace must leave it open."""
        return (not isinstance(self._source, str)) and bool(getattr(self._source, "closed", False))

    def counters(self):
        if self.reader is None:
            return None
        return [self.reader.accepted_rows_count, self.reader.rejected_rows_count]

    def outcome(self, with_message=True):
        return {
            "items": [item if item[0] == "row" else ["err", _strip(item[1], with_message)] for item in self.items],
            "raised": None if self.raised is None else error_summary(self.raised, with_message),
            "exhausted": self.exhausted,
            "closed": self.closed if self.closed in (None, "ok") else error_summary(self.closed, with_message),
            "counters": self.counters(),
        }


def _strip(summary, with_message):
    if with_message:
        return summary
    return {key: value for key, value in summary.items() if key != "message"}


class WriteRun(object):
    """One validated write through ``cutplace.Writer``; target is a SimFS path or a StringIO."""

    def __init__(self, cid, fs, target):
        from cutplace import validio

        self.fs = fs
        self.target = target
        self.stream = None
        if target == "<stream>":
            self.stream = io.StringIO(newline="")
            actual_target = self.stream
        else:
            actual_target = target
        self.results = []  # "ok" | exception object per write_row
        self.closed = None
        self.snapshots = []
        status, value = call(validio.Writer, cid, actual_target)
        self.writer = value if status == "ok" else None
        self.init_error = value if status == "exc" else None

    def output(self):
        if self.stream is not None:
            return self.stream.getvalue()
        data = self.fs.files.get(self.target)
        return None if data is None else bytes(data)

    def write_row(self, row, copy=True):
        status, value = call(self.writer.write_row, list(row) if copy else row)
        self.results.append("ok" if status == "ok" else value)
        if self.stream is not None:
            self.snapshots.append(self.stream.getvalue())
        return status == "ok"

    def close(self):
        if self.closed is None:
            final = self.stream.getvalue() if self.stream is not None else None
            status, value = call(self.writer.close)
            self.closed = "ok" if status == "ok" else value
            if self.stream is not None and not self.stream.closed:
                final = self.stream.getvalue()
            self._final = final

    def outcome(self, with_message=True):
        output = self.output()
        if isinstance(output, bytes):
            output = output.decode("latin-1")
        return {
            "init": None if self.init_error is None else error_summary(self.init_error, with_message),
            "results": [item if item == "ok" else error_summary(item, with_message) for item in self.results],
            "closed": self.closed if self.closed in (None, "ok") else error_summary(self.closed, with_message),
            "output": output,
        }


# --------------------------------------------------------------------------------------------
# shrinking helpers (scenarios are plain JSON trees)
# --------------------------------------------------------------------------------------------
def without_index(scenario, path, index):
    result = copy.deepcopy(scenario)
    node = result
    for key in path[:-1]:
        node = node[key]
    del node[path[-1]][index]
    return result


def with_value(scenario, path, value):
    result = copy.deepcopy(scenario)
    node = result
    for key in path[:-1]:
        node = node[key]
    node[path[-1]] = value
    return result


def get_path(scenario, path):
    node = scenario
    for key in path:
        node = node[key]
    return node


def drop_candidates(scenario, path, minimum=0):
    """Candidates with chunks (halves, then single items) removed from the list at ``path``."""
    items = get_path(scenario, path)
    count = len(items)
    if count <= minimum:
        return
    size = count // 2
    while size >= 1:
        for start in range(0, count, size):
            if count - min(size, count - start) < minimum:
                continue
            result = copy.deepcopy(scenario)
            node = get_path(result, path)
            del node[start:start + size]
            yield result
        if size == 1:
            break
        size //= 2


def io_candidates(scenario, key="io"):
    """Collapse the chunk plan towards 'whole'."""
    config = scenario.get(key) or {}
    if config.get("regime", "whole") != "whole":
        yield with_value(scenario, [key], dict(config, regime="whole", bufsize=None, textchunk=None))
    elif config.get("textchunk") or config.get("bufsize"):
        yield with_value(scenario, [key], dict(config, bufsize=None, textchunk=None))


def draw_io(rng):
    return simfs.IoConfig.draw(rng)
