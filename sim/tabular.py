"""Workload pieces shared by the reader properties (C04-C07, C17): a catalogue of simple field
declarations with cell pools, CID spec -> CID rows, storage of a logical table through the peers
in any of the four formats, per-format shaping ("as read") and the reference reader model.

The per-cell verdict is never modelled: it is asked from the real field on a private CID
(``lib.cell_verdicts``)."""
import operator

from sim import lib
from sim.peers import odf, xlsx

FORMATS = ["delimited", "fixed", "ods", "excel"]

#: type -> (rule template, fixed width, good pool, bad pool, text-format-only)
FIELD_KINDS = {
    "Integer": ("0{sep}99", 3, ["0", "7", "42", "99"], ["100", "-1", "x", "1.5"], False),
    "Decimal": ("0{sep}9.99", 4, ["1.5", "0", "9.99"], ["10", "abc", "1,5", "9.9900000000000001"], True),
    "Choice": ("red,green", 5, ["red", "green"], ["blue", "RED"], False),
    "Constant": ("k", 1, ["k"], ["j"], False),
    "DateTime": ("DD.MM.YYYY", 10, ["01.02.2003", "31.12.1999"], ["31.02.2003", "x"], False),
    "Pattern": ("a*", 3, ["a", "ab", "Abc"], ["b", "xa"], False),
    "RegEx": ("a+b", 3, ["ab", "aab"], ["b", "ba"], False),
    "Text": ("", 3, ["x", "yz", "abc"], ["abcd"], False),
}
#: accepted Text values made of a byte order mark, Unicode line / paragraph separators, NEL and a non-ASCII letter
EXOTIC_TEXT = ["\ufeffx", "a\u2028", "\u0085", "\u00e9", "x\u2029y", "e\u0301", "\u212b", "1.0", "v.0", "a\\b", "\\"]
KIND_NAMES = sorted(FIELD_KINDS)
OPERATORS = {"<": operator.lt, "<=": operator.le, "==": operator.eq, "!=": operator.ne, ">": operator.gt,
             ">=": operator.ge}


def draw_fields(rng, fmt, count, allow_empty=True, kinds=None):
    fields = []
    for index in range(count):
        while True:
            kind = rng.choice(kinds or KIND_NAMES)
            if not (FIELD_KINDS[kind][4] and fmt in ("ods", "excel")):
                break
        empty = allow_empty and kind != "Constant" and rng.random() < 0.25
        fields.append({"name": "%s%d" % (kind[:3].lower(), index), "type": kind, "empty": empty})
    return fields


def cid_rows(spec):
    """spec: {format, header, sep, fields:[{name,type,empty}], checks:[[desc,type,rule]], props:[[name,value]]}"""
    fmt = spec["format"]
    sep = spec.get("sep", ":")
    rows = [["d", "format", fmt]]
    if spec.get("header"):
        rows.append(["d", "header", str(spec["header"])])
    if fmt in ("delimited", "fixed"):
        rows.append(["d", "encoding", spec.get("encoding", "utf-8")])
        rows.append(["d", "line delimiter", spec.get("line_delimiter", "lf")])
    if fmt in ("ods", "excel") and spec.get("sheet"):
        rows.append(["d", "sheet", str(spec["sheet"])])
    for name, value in spec.get("props", []):
        rows.append(["d", name, value])
    for field in spec["fields"]:
        rule, width, _, _, _ = FIELD_KINDS[field["type"]]
        rule = field.get("rule", rule)
        width = field.get("width", width)
        length = ""
        if fmt == "fixed":
            length = str(width)
        elif "length" in field:
            length = field["length"]
        elif field["type"] == "Text":
            length = "1{sep}3"
        rows.append(["f", field["name"], field.get("example", ""), "X" if field.get("empty") else "",
                     length.format(sep=sep), field["type"], rule.format(sep=sep)])
    for check in spec.get("checks", []):
        rows.append(["c"] + list(check))
    return rows


def widths(spec):
    return [field.get("width", FIELD_KINDS[field["type"]][1]) for field in spec["fields"]]


def draw_cell(rng, field, fmt, bad_rate=0.15):
    _, _, good, bad, _ = FIELD_KINDS[field["type"]]
    good = field.get("good", good)
    bad = field.get("bad", bad)
    roll = rng.random()
    if roll < bad_rate:
        pool = list(bad)
        if fmt == "fixed":
            pool = [cell for cell in pool if len(cell) <= field.get("width", FIELD_KINDS[field["type"]][1])] or [""]
        pool.append("")
        if fmt != "fixed":
            # cells consisting of white space only are ordinary non-empty cells outside fixed-width data
            pool += [" ", "\t"]
        return rng.choice(pool)
    if field.get("empty") and roll < bad_rate + 0.1:
        return ""
    if field["type"] == "Text" and "good" not in field and rng.random() < 0.15:
        # characters that are data like any other although some tools give them a meaning of their own
        return rng.choice(EXOTIC_TEXT)
    return rng.choice(good)


def _encodable(text, encoding):
    try:
        text.encode(encoding)
        return True
    except UnicodeEncodeError:
        return False


def draw_table(rng, spec, max_rows=8, bad_rate=0.15, ragged_rate=0.08):
    fmt = spec["format"]
    table = []
    for _ in range(rng.randint(0, max_rows)):
        row = [draw_cell(rng, field, fmt, bad_rate) for field in spec["fields"]]
        if any(prop[0] == "escape character" and prop[1] == "\\" for prop in spec.get("props", [])):
            # the text peer writes cells verbatim (quotes doubled): under a backslash escape character a backslash
            # in a cell would have to be escaped, which is the writer's business (C12), not the reader checks'
            row = [cell.replace("\\", "/") for cell in row]
        if spec.get("encoding", "utf-8") != "utf-8":
            # only what the file's encoding can store
            row = [cell if cell not in EXOTIC_TEXT or _encodable(cell, spec["encoding"]) else "x" for cell in row]
        if fmt != "fixed" and rng.random() < ragged_rate:
            roll = rng.random()
            if roll < 0.15 and fmt in ("delimited", "ods"):
                row = []  # a blank line / a row element without cells: zero items
            elif roll < 0.55 and len(row) > 1:
                row = row[:-1]
            else:
                row = row + [rng.choice(["extra", ""])]
        table.append(row)
    return table


def as_read(spec, table):
    """The raw rows a correct reader of this format hands to validation."""
    fmt = spec["format"]
    if fmt == "fixed":
        return [[cell.ljust(width) for cell, width in zip(row, widths(spec))] for row in table]
    if fmt == "excel":
        # a workbook cannot tell an empty text cell from no cell: the sheet is as wide as its
        # right-most non-empty cell and as long as its last row holding one; rows are padded to that
        width = 0
        height = 0
        for number, row in enumerate(table, 1):
            filled = [index for index, cell in enumerate(row) if cell != ""]
            if filled:
                width = max(width, filled[-1] + 1)
                height = number
        return [(list(row) + [""] * width)[:width] for row in table[:height]]
    return [list(row) for row in table]


def store(fs, path, spec, table, rng=None, features=None, eol=None):
    """Store ``table`` at ``path`` in the CID's format through the independent peers."""
    fmt = spec["format"]
    if fmt == "delimited":
        eol = eol or {"lf": "\n", "cr": "\r", "crlf": "\r\n", "any": spec.get("eol", "\n")}[spec.get("line_delimiter", "lf")]
        data = lib.render_delimited(table, ",", '"', eol).encode(spec.get("encoding", "utf-8"))
    elif fmt == "fixed":
        eol = eol or {"lf": "\n", "cr": "\r", "crlf": "\r\n", "any": spec.get("eol", "\n"), "none": ""}[spec.get("line_delimiter", "lf")]
        data = lib.render_fixed(table, widths(spec), eol).encode(spec.get("encoding", "utf-8"))
    elif fmt == "ods":
        sheets = [[["other", "sheet"]]] * (spec.get("sheet", 1) - 1) + [table]
        data, _, _ = odf.encode(sheets, features or ())
    elif fmt == "excel":
        sheets = [[[("s", "other")]]] * (spec.get("sheet", 1) - 1) + [xlsx.text_table(table)]
        data = xlsx.encode(sheets)
    else:
        raise ValueError(fmt)
    fs.store(path, data)
    return data


def data_path(spec, stem="data"):
    return stem + {"delimited": ".csv", "fixed": ".txt", "ods": ".ods", "excel": ".xlsx"}[spec["format"]]


class RefReader(object):
    """Reference model of validated reading: list processing over the raw rows.

    ``items()`` -> list of ("row", row) / ("err", {kind, line, cell?, field?, see_also?}) as yield mode
    must produce them; ``end_error()`` -> name of the first failing end check or None."""

    def __init__(self, spec, raw_rows, until=None, keys_of_accepted_rows_only=False):
        # keys_of_accepted_rows_only: an IsUnique key counts once its row is accepted by every check (C05's statement);
        # otherwise once the row reached that check, as the code does (the two differ only under two IsUnique checks)
        self.keys_of_accepted_rows_only = keys_of_accepted_rows_only
        self.spec = spec
        self.rows = raw_rows
        self.until = until
        self.header = spec.get("header", 0)
        self.names = [field["name"] for field in spec["fields"]]
        self.verdicts = lib.cell_verdicts(cid_rows(spec), raw_rows)
        self._items = None
        self._end = None
        self.snapshots = {}  # number of items produced -> {check description: distinct count so far}
        self.reached = {}  # check description -> list of row numbers that reached it

    def _compute(self):
        count = len(self.names)
        seen = {}
        distinct = {}
        items = []
        checks = self.spec.get("checks", [])
        for description, _, _ in checks:
            seen[description] = {}
            distinct[description] = set()
            self.reached[description] = []
        for number, row in enumerate(self.rows, 1):
            if number <= self.header:
                continue
            if self.until is not None and number > self.until:
                items.append(("row", list(row)))
                continue
            if len(row) != count:
                items.append(("err", {"kind": "count", "line": number - 1}))
                continue
            verdict = self.verdicts[number - 1]
            if not all(verdict):
                bad = verdict.index(False)
                items.append(("err", {"kind": "cell", "line": number - 1, "cell": bad, "field": self.names[bad]}))
                continue
            rejected = None
            pending = []
            for description, kind, rule in checks:
                self.reached[description].append(number)
                if kind == "IsUnique":
                    indices = [self.names.index(name.strip()) for name in rule.split(",")]
                    key = tuple(row[index] for index in indices)
                    if key in seen[description]:
                        rejected = {"kind": "check", "line": number - 1, "see_also": seen[description][key],
                                    "check": description}
                        break
                    if self.keys_of_accepted_rows_only:
                        pending.append((description, key))
                    else:
                        seen[description][key] = number - 1
                elif kind == "DistinctCount":
                    name = rule.split()[0]
                    distinct[description].add(row[self.names.index(name)])
            if rejected is not None:
                items.append(("err", rejected))
            else:
                items.append(("row", list(row)))
                for description, key in pending:
                    seen[description][key] = number - 1
            self.snapshots[len(items)] = {description: len(values) for description, values in distinct.items()}
        end = None
        for description, kind, rule in checks:
            if kind == "DistinctCount":
                _, op, threshold = rule.split()
                if not OPERATORS[op](len(distinct[description]), int(threshold)):
                    end = description
                    break
        self._items, self._end = items, end
        self.distinct = distinct
        self.seen = seen

    def items(self):
        if self._items is None:
            self._compute()
        return self._items

    def end_error(self, after_items=None):
        """Description of the first DistinctCount check failing when the run is closed after the
        first ``after_items`` items (None: after all of them), else None."""
        if self._items is None:
            self._compute()
        if after_items is None or after_items >= len(self._items):
            return self._end
        counts = {}
        for produced in sorted(self.snapshots):
            if produced <= after_items:
                counts = self.snapshots[produced]
        for description, kind, rule in self.spec.get("checks", []):
            if kind == "DistinctCount":
                _, op, threshold = rule.split()
                if not OPERATORS[op](counts.get(description, 0), int(threshold)):
                    return description
        return None

    def data_row_count(self):
        return max(0, len(self.rows) - self.header)


def item_mismatch(expected, actual, file_name=None):
    """None if the real item (from lib.ReadRun.items) matches the model item, else a short reason."""
    kind, payload = expected
    if kind == "row":
        if actual[0] != "row":
            return "model accepts the row, cutplace rejected it"
        if actual[1] != payload:
            return "row content differs"
        return None
    if actual[0] != "err":
        return "model rejects the row (%s), cutplace accepted it" % payload["kind"]
    summary = actual[1]
    if not summary.get("is_data_error"):
        return "rejection is not a data error: %s" % summary["class"]
    location = summary.get("loc")
    if location is None:
        return "rejection carries no location"
    if location["line"] != payload["line"]:
        return "row number differs"
    if file_name is not None and location["file"] != file_name:
        return "location does not name the input"
    if payload["kind"] == "cell":
        if location.get("cell") != payload["cell"]:
            return "culprit column differs"
        if payload["field"] not in summary.get("message", ""):
            return "message does not name the offending field"
    if payload["kind"] == "check":
        see_also = summary.get("see_also")
        if see_also is None or see_also["line"] != payload["see_also"]:
            return "reference to first occurrence differs"
    return None


REASON_RULES = {
    "model accepts the row, cutplace rejected it": "row-wrongly-rejected",
    "row content differs": "row-content-differs",
    "rejection is not a data error": "rejection-class",
    "rejection carries no location": "culprit-location",
    "row number differs": "culprit-row",
    "location does not name the input": "culprit-input-name",
    "culprit column differs": "culprit-column",
    "message does not name the offending field": "message-field-name",
    "reference to first occurrence differs": "first-occurrence-reference",
}


def compare_items(expected, actual, file_name=None):
    """First difference between model items and real items: (rule, features, detail) or None."""
    for index, item in enumerate(expected):
        if index >= len(actual):
            return "items-missing", ["expected=" + item[0]], "cutplace produced %d items, model %d" % (len(actual), len(expected))
        reason = item_mismatch(item, actual[index], file_name)
        if reason is not None:
            if reason.startswith("model rejects the row"):
                rule = "row-wrongly-accepted"
                features = ["kind=" + item[1]["kind"]]
            elif reason.startswith("rejection is not a data error"):
                rule, features = "rejection-class", []
            else:
                rule = REASON_RULES[reason]
                features = ["kind=" + item[1]["kind"]] if item[0] == "err" else []
            return rule, features, "item %d: %s; model=%r cutplace=%r" % (index, reason, item, actual[index])
    if len(actual) > len(expected):
        return "items-extra", ["extra=" + actual[len(expected)][0]], "cutplace produced %d items, model %d: %r" % (
            len(actual), len(expected), actual[len(expected)])
    return None


def verify_run(model, run, mode, api, file_name, features, result=None):
    """Compare a finished lib.ReadRun (stepped to the end and closed) with the reference model under
    error mode ``mode``.  Raises core.Violation on the first difference."""
    from sim import core

    if run.stream_closed_behind_callers_back():
        raise core.Violation("caller-stream-closed-by-cutplace", features, "the stream passed in as data source is closed after the run")
    changed_row = run.rows_changed()
    if changed_row is not None:
        raise core.Violation("returned-row-changed-later", features, "item %d was %r when returned, is %r after the run" % changed_row)
    changed = run.held_changed()
    if changed is not None:
        # an error handed out earlier must keep its own location while reading goes on
        raise core.Violation("held-error-changed-after-yield", features, "item %d: at yield %r, after the pass %r" % changed)
    items = model.items()
    first_error = next((index for index, item in enumerate(items) if item[0] == "err"), None)
    raised_item = None
    if mode == "yield":
        presented, consumed = items, len(items)
    elif mode == "continue":
        presented, consumed = [item for item in items if item[0] == "row"], len(items)
    else:
        if first_error is None:
            presented, consumed = items, len(items)
        else:
            presented, consumed = items[:first_error], first_error + 1
            raised_item = items[first_error]
    difference = compare_items(presented, run.items, file_name)
    if difference is not None:
        rule, more, detail = difference
        raise core.Violation(rule, features + more, detail)
    expected_end = model.end_error(consumed)
    raised = None if run.raised is None else ["err", lib.error_summary(run.raised)]
    if raised_item is not None:
        if raised is None:
            raise core.Violation("raise-mode-did-not-raise", features, "model expects %r to be raised" % (raised_item,))
        reason = item_mismatch(raised_item, raised, file_name)
        if reason is not None:
            raise core.Violation("raised-error-differs", features + ["kind=" + raised_item[1]["kind"], "api=" + api],
                                 "%s; model=%r cutplace=%r" % (reason, raised_item, raised))
        end_verdict = run.closed if api in ("Reader", "validate_rows") else None
    else:
        if api in ("Reader", "validate_rows"):
            if raised is not None:
                raise core.Violation("unexpected-exception", features + ["class=" + raised[1]["class"]],
                                     "iteration raised %r, model expects none" % (raised,))
            end_verdict = run.closed
        else:
            # cutplace.rows(): the generator closes its reader when it is exhausted, so the
            # end-of-data verdict arrives as the exception (or not) of the last next()
            end_verdict = "ok" if raised is None else run.raised
    if end_verdict is not None:
        if expected_end is None and end_verdict != "ok":
            raise core.Violation("end-check-failed-unexpectedly", features + ["api=" + api],
                                 "model: end checks pass; cutplace: %r" % (lib.error_summary(end_verdict),))
        if expected_end is not None:
            if end_verdict == "ok":
                raise core.Violation("end-check-passed-unexpectedly", features + ["api=" + api],
                                     "model: check %r fails at the end; cutplace: close() passed" % expected_end)
            summary = lib.error_summary(end_verdict)
            if not summary["is_data_error"]:
                raise core.Violation("end-check-error-class", features + ["class=" + summary["class"]], repr(summary))
    counters = run.counters()
    if counters is not None and mode != "raise" and run.exhausted:
        accepted = sum(1 for item in items if item[0] == "row")
        if counters != [accepted, len(items) - accepted]:
            raise core.Violation("counters", features + ["mode=" + mode],
                                 "counters %r, model %r of %d data rows" % (counters, [accepted, len(items) - accepted], len(items)))
    return expected_end


def verify_validate(model, raised, limit, file_name, features):
    """cutplace.validate(cid, data, validate_until=limit): raises the first rejection among the first ``limit`` data
    rows (all rows without limit), else the end-of-data verdict over the rows consumed, else nothing."""
    from sim import core

    items = model.items()
    window = items if limit is None else items[:limit]
    first_error = next((index for index, item in enumerate(window) if item[0] == "err"), None)
    summary = None if raised is None else lib.error_summary(raised)
    if first_error is not None:
        if summary is None:
            raise core.Violation("validate-missed-rejection", features, "model rejects %r" % (window[first_error],))
        reason = item_mismatch(window[first_error], ["err", summary], file_name)
        if reason is not None:
            raise core.Violation("validate-raised-other-error", features, "%s: model %r, raised %r" % (reason, window[first_error], summary))
        return
    expected_end = model.end_error(len(window))
    if expected_end is None and summary is not None:
        raise core.Violation("validate-raised-unexpectedly", features + ["class=" + summary["class"]], repr(summary))
    if expected_end is not None:
        if summary is None:
            raise core.Violation("end-check-passed-unexpectedly", features + ["api=validate"],
                                 "model: check %r fails over the %d rows consumed; validate() returned normally" % (expected_end, len(window)))
        if not summary["is_data_error"]:
            raise core.Violation("end-check-error-class", features + ["class=" + summary["class"]], repr(summary))
