"""Simulated storage and the seams through which cutplace reaches it.

``SimFS`` is a path -> bytes namespace.  ``SimRaw`` is a raw stream over those bytes that
delivers *short reads* and accepts *short writes* whose sizes come from a seeded chunk
stream; real ``io.BufferedReader`` / ``io.TextIOWrapper`` / ``zipfile`` / ``xlrd`` /
``xlsxwriter`` run on top of it.  ``Seams`` replaces the module attributes
``cutplace.rowio.{io,zipfile,xlrd,xlsxwriter,os}`` for the duration of a run and restores them
afterwards.  Nothing in a run touches the real disk.
"""
import errno
import io
import os
import zipfile

import xlrd
import xlsxwriter

from sim import core

DIRECTORY = object()

#: chunk regimes: name -> (low, high) bytes per raw read/write; None = unlimited
REGIMES = {
    "whole": None,
    "1": (1, 1),
    "1..3": (1, 3),
    "1..7": (1, 7),
    "1..64": (1, 64),
    "page": (4096, 4096),
}
REGIME_NAMES = sorted(REGIMES)


class IoConfig(object):
    """How bytes move in this run: chunk regime, buffer sizes, PRNG stream for chunk sizes."""

    def __init__(self, io_seed=0, regime="whole", bufsize=None, textchunk=None, linesep="\n"):
        assert regime in REGIMES, regime
        self.io_seed = io_seed
        self.regime = regime
        self.bufsize = bufsize
        self.textchunk = textchunk
        self.linesep = linesep

    @classmethod
    def from_dict(cls, d):
        d = d or {}
        return cls(d.get("io_seed", 0), d.get("regime", "whole"), d.get("bufsize"), d.get("textchunk"),
                   d.get("linesep", "\n"))

    @staticmethod
    def draw(rng):
        regime = rng.choice(["whole", "whole", "1", "1..3", "1..7", "1..64", "page"])
        return {
            "io_seed": rng.randrange(1 << 30),
            "regime": regime,
            "bufsize": rng.choice([None, 1, 2, 3, 5, 8, 16, 64]) if regime != "whole" else None,
            "textchunk": rng.choice([None, 1, 2, 3, 5, 8, 32]),
            "linesep": rng.choice(["\n", "\r\n"]),
        }


class SimRaw(io.RawIOBase):
    """Raw byte stream over a SimFS file with seeded short reads / short writes."""

    def __init__(self, fs, path, mode, open_index):
        super().__init__()
        self._fs = fs
        self._path = path
        self._mode = mode
        self._pos = 0
        self.name = path
        self.mode = {"r": "rb", "w": "wb", "a": "ab"}[mode]
        bounds = REGIMES[fs.config.regime]
        self._bounds = bounds
        self._rng = core.stream(fs.config.io_seed, "io/%d" % open_index) if bounds else None
        if mode == "w" or (mode == "a" and not isinstance(fs.files.get(path), bytearray)):
            fs.files[path] = bytearray()
        self._data = fs.files[path]
        if mode == "a":
            self._pos = len(self._data)

    def _chunk(self, wanted):
        if self._bounds is None or wanted <= 0:
            return wanted
        low, high = self._bounds
        self._fs.stats["chunked_io"] = self._fs.stats.get("chunked_io", 0) + 1
        return min(wanted, self._rng.randint(low, high))

    def readable(self):
        return self._mode == "r"

    def writable(self):
        return self._mode in ("w", "a")

    def seekable(self):
        return True

    def readinto(self, buffer):
        self._fs.tick()
        limit = self._fs.read_errors.get(self._path)
        if limit is not None and self._pos + min(len(buffer), len(self._data) - self._pos) > limit:
            if self._pos >= limit:
                # the medium fails: every further read of this file ends in EIO
                self._fs.stats["eio"] = self._fs.stats.get("eio", 0) + 1
                self._fs.log.append(("eio", self._path))
                raise OSError(errno.EIO, os.strerror(errno.EIO), self._path)
            count = limit - self._pos
            buffer[:count] = self._data[self._pos:self._pos + count]
            self._pos += count
            return count
        count = self._chunk(min(len(buffer), len(self._data) - self._pos))
        if count <= 0:
            return 0
        buffer[:count] = self._data[self._pos:self._pos + count]
        self._pos += count
        return count

    def write(self, data):
        self._fs.tick()
        data = bytes(data)
        count = self._chunk(len(data))
        self._data[self._pos:self._pos + count] = data[:count]
        self._pos += count
        return count

    def seek(self, offset, whence=0):
        if whence == 0:
            self._pos = offset
        elif whence == 1:
            self._pos += offset
        else:
            self._pos = len(self._data) + offset
        if self._pos < 0:
            raise OSError(errno.EINVAL, "negative seek position")
        return self._pos

    def tell(self):
        return self._pos

    def close(self):
        if not self.closed:
            self._fs.open_handles -= 1
        super().close()


class StepCapExceeded(Exception):
    pass


class SimFS(object):
    def __init__(self, config=None, step_cap=2_000_000):
        self.config = config or IoConfig()
        self.files = {}
        self.opens = 0
        self.open_handles = 0
        self.ticks = 0
        self.step_cap = step_cap
        self.stats = {}
        self.read_errors = {}  # path -> byte offset from which reads fail with EIO
        self.log = []  # (op, path)

    def tick(self):
        self.ticks += 1
        if self.ticks > self.step_cap:
            raise StepCapExceeded("more than %d raw I/O steps in one run" % self.step_cap)

    # -- namespace ---------------------------------------------------------------------
    def store(self, path, data):
        self.files[path] = bytearray(data)

    def mkdir(self, path):
        self.files[path] = DIRECTORY

    def read_bytes(self, path):
        return bytes(self._lookup(path))

    def _lookup(self, path):
        if not isinstance(path, str):
            raise TypeError("path must be str: %r" % (path,))
        entry = self.files.get(path)
        if entry is None:
            self.log.append(("enoent", path))
            raise FileNotFoundError(errno.ENOENT, os.strerror(errno.ENOENT), path)
        if entry is DIRECTORY:
            self.log.append(("eisdir", path))
            raise IsADirectoryError(errno.EISDIR, os.strerror(errno.EISDIR), path)
        return entry

    # -- streams -----------------------------------------------------------------------
    def open_raw(self, path, mode):
        if mode == "r":
            self._lookup(path)
        else:
            entry = self.files.get(path)
            if entry is DIRECTORY:
                raise IsADirectoryError(errno.EISDIR, os.strerror(errno.EISDIR), path)
        self.opens += 1
        self.open_handles += 1
        self.log.append(("open-" + mode, path))
        return SimRaw(self, path, mode, self.opens)

    def open_binary(self, path, mode="r"):
        raw = self.open_raw(path, mode)
        bufsize = self.config.bufsize or io.DEFAULT_BUFFER_SIZE
        if mode == "r":
            return io.BufferedReader(raw, buffer_size=bufsize)
        return io.BufferedWriter(raw, buffer_size=bufsize)

    def open(self, path, mode="r", buffering=-1, encoding=None, errors=None, newline=None, closefd=True, opener=None):
        """Stand-in for ``io.open`` as cutplace calls it (text or binary, read or write)."""
        plain_mode = mode.replace("t", "")
        binary = "b" in plain_mode
        plain_mode = plain_mode.replace("b", "")
        if plain_mode not in ("r", "w", "a"):
            raise ValueError("SimFS supports modes r, w and a only: %r" % mode)
        buffered = self.open_binary(path, plain_mode)
        if binary:
            return buffered
        text = io.TextIOWrapper(buffered, encoding=encoding or "utf-8", errors=errors, newline=newline)
        if self.config.textchunk:
            text._CHUNK_SIZE = self.config.textchunk
        return text

    def text_stream(self, path, encoding="utf-8", newline=""):
        """A text stream as a *client* would pass it to cutplace (opened by the caller)."""
        return self.open(path, "r", encoding=encoding, newline=newline)


class _NullLog(object):
    def write(self, text):
        return len(text)

    def flush(self):
        pass


class _Proxy(object):
    """Module stand-in: listed attributes overridden, everything else from the real module."""

    def __init__(self, real, **overrides):
        self.__dict__["_real"] = real
        self.__dict__.update(overrides)

    def __getattr__(self, name):
        return getattr(self._real, name)


class Seams(object):
    """Context manager installing the seams into a freshly imported cutplace."""

    def __init__(self, fs):
        self.fs = fs
        self._saved = []

    def _patch(self, module, name, value):
        self._saved.append((module, name, getattr(module, name)))
        setattr(module, name, value)

    def __enter__(self):
        import cutplace.rowio as rowio
        import cutplace.sql as sql

        fs = self.fs

        def zip_file(file, mode="r", *args, **kwargs):
            if isinstance(file, str):
                if mode != "r":
                    raise ValueError("SimFS zip seam is read-only")
                file = fs.open_binary(file, "r")
                try:
                    return _OwningZipFile(file, mode, *args, **kwargs)
                except BaseException:
                    file.close()
                    raise
            return zipfile.ZipFile(file, mode, *args, **kwargs)

        def open_workbook(filename=None, *args, **kwargs):
            if isinstance(filename, str) and "file_contents" not in kwargs:
                with fs.open_binary(filename, "r") as stream:
                    contents = stream.read()
                if not contents:
                    # what xlrd does for an empty file it opened itself (file_contents=b"" would send it to the real disk)
                    raise xlrd.XLRDError("File size is 0 bytes")
                kwargs.setdefault("logfile", _NullLog())  # xlrd prints warnings about odd files to stdout
                return xlrd.open_workbook(filename=filename, file_contents=contents, *args, **kwargs)
            return xlrd.open_workbook(filename, *args, **kwargs)

        class SimWorkbook(xlsxwriter.Workbook):
            def __init__(self, filename=None, options=None):
                self._sim_path = filename
                self._sim_buffer = io.BytesIO()
                options = dict(options or {})
                # the workbook is assembled in a buffer; whatever temporary files xlsxwriter wants for the mode the
                # caller asked for (constant_memory, ...) go to the scratch directory of this run, not to /tmp
                scratch = os.path.join(os.environ.get("VERIF_SCRATCH", "/dev/shm/verif-scratch-x"), "xlsx-%d" % os.getpid())
                os.makedirs(scratch, exist_ok=True)
                options.setdefault("tmpdir", scratch)
                if not options.get("constant_memory"):
                    options["in_memory"] = True
                super().__init__(self._sim_buffer, options)

            def close(self):
                super().close()
                if self._sim_path is not None:
                    with fs.open_binary(self._sim_path, "w") as stream:
                        stream.write(self._sim_buffer.getvalue())
                    self._sim_path = None

        io_proxy = _Proxy(io, open=fs.open)
        self._patch(rowio, "io", io_proxy)
        self._patch(rowio, "zipfile", _Proxy(zipfile, ZipFile=zip_file))
        self._patch(rowio, "xlrd", _Proxy(xlrd, open_workbook=open_workbook))
        self._patch(rowio, "xlsxwriter", _Proxy(xlsxwriter, Workbook=SimWorkbook))
        self._patch(rowio, "os", _Proxy(os, linesep=fs.config.linesep))
        self._patch(sql, "io", io_proxy)
        return self

    def __exit__(self, exc_type, exc, tb):
        while self._saved:
            module, name, value = self._saved.pop()
            setattr(module, name, value)
        return False


class _OwningZipFile(zipfile.ZipFile):
    """ZipFile over a stream it did not open itself but has to close (like a path-opened one)."""

    def close(self):
        stream = self.fp
        try:
            super().close()
        finally:
            if stream is not None and not stream.closed:
                stream.close()
