"""Seeded search driver: fork pool, budgets, watchdogs, shrinking, replay files, known findings,
determinism self-test and the evidence writer.

Exit codes: 0 held (KNOWN-FINDING lines allowed), 1 VIOLATION (minimised + replayed in a fresh
interpreter), 2 harness failure (never reported as success, never as a violation).
"""
import concurrent.futures
import faulthandler
import importlib
import itertools
import json
import pickle
import resource
import shutil
import multiprocessing
import os
import signal
import subprocess
import sys
import time
import traceback

from sim import boot, core

VERIF = boot.VERIF
EVIDENCE_DIR = os.path.abspath(os.environ.get("VERIF_EVIDENCE_DIR") or os.path.join(VERIF, "evidence"))
REPLAY_DIR = os.path.abspath(os.environ.get("VERIF_REPLAY_DIR") or os.path.join(VERIF, "replays"))
KNOWN_FINDINGS = os.path.join(VERIF, "known_findings.json")
RUN_TIMEOUT_S = 60
CHILD_MEMORY_LIMIT = 2 << 30
BATCH_WATCHDOG_S = 900


class RunTimeout(BaseException):
    pass


class HarnessError(Exception):
    pass


def load_prop(prop_id):
    return importlib.import_module("props." + prop_id.lower())


def _alarm(signum, frame):
    raise RunTimeout()


def safe_execute(prop, scenario):
    """Execute one scenario.  Returns (result, harness_error_text or None)."""
    signal.signal(signal.SIGALRM, _alarm)
    signal.setitimer(signal.ITIMER_REAL, RUN_TIMEOUT_S)
    try:
        try:
            for earlier in scenario.get("_history", ()):
                # scenarios that ran earlier in the same process: only needed when the code under test
                # keeps process-global state (caches, module-level variables) that leaks between uses
                try:
                    prop.execute(earlier)
                except core.Violation:
                    pass
            result = prop.execute(scenario)
        except core.Violation as violation:
            result = core.Result()
            result.violation = violation.as_dict()
            result.nontrivial = True
        if isinstance(result.violation, dict) and scenario.get("_history"):
            result.violation = dict(result.violation,
                                    features=sorted(set(result.violation["features"]) | {"needs-process-history"}))
        return result, None
    except RunTimeout:
        return None, "run exceeded %d s wall clock (hang?)\nscenario=%s" % (RUN_TIMEOUT_S, core.canonical(scenario)[:2000])
    except Exception:
        return None, traceback.format_exc() + "\nscenario=%s" % core.canonical(scenario)[:4000]
    finally:
        signal.setitimer(signal.ITIMER_REAL, 0)


def in_child(function, *args):
    """Run ``function(*args)`` in a forked child of this (pristine) process and return its result."""
    read_end, write_end = os.pipe()
    pid = os.fork()
    if pid == 0:
        status = 0
        try:
            os.close(read_end)
            # a run that tries to allocate gigabytes must fail with MemoryError (an outcome the oracles can
            # judge) instead of getting the whole check killed by the kernel
            resource.setrlimit(resource.RLIMIT_AS, (CHILD_MEMORY_LIMIT, CHILD_MEMORY_LIMIT))
            try:
                payload = pickle.dumps(("ok", function(*args)))
            except BaseException:  # noqa: B902 - reported to the parent
                payload = pickle.dumps(("error", traceback.format_exc()))
                status = 1
            with os.fdopen(write_end, "wb") as stream:
                stream.write(payload)
        finally:
            os._exit(status)
    os.close(write_end)
    with os.fdopen(read_end, "rb") as stream:
        data = stream.read()
    os.waitpid(pid, 0)
    if not data:
        raise HarnessError("forked child died without a result")
    kind, value = pickle.loads(data)
    if kind == "error":
        raise HarnessError("forked child failed:\n" + value)
    return value


def execute_isolated(prop, scenario):
    """safe_execute in a forked child: no state of earlier scenarios can influence it."""
    return in_child(safe_execute, prop, scenario)


def shrink(prop, scenario, violation, max_execs=600, executor=None):
    """Greedy delta debugging over the property's candidate generator; same oracle rule must persist."""
    executor = executor or safe_execute
    best, best_violation, execs = scenario, violation, 0
    improved = True
    while improved and execs < max_execs:
        improved = False
        history = best.get("_history")
        if history:
            # first try to get rid of process history: halves, then single scenarios
            size = max(1, len(history) // 2)
            while size >= 1 and not improved:
                for start in range(0, len(history), size):
                    candidate = dict(best, _history=history[:start] + history[start + size:])
                    if not candidate["_history"]:
                        del candidate["_history"]
                    result, error = executor(prop, candidate)
                    execs += 1
                    if error is None and result.violation is not None and result.violation["rule"] == best_violation["rule"]:
                        best, best_violation = candidate, result.violation
                        improved = True
                        break
                if size == 1:
                    break
                size //= 2
            if improved:
                continue
        for candidate in prop.candidates(best):
            if execs >= max_execs:
                break
            if history:
                candidate = dict(candidate, _history=history)
            result, error = executor(prop, candidate)
            execs += 1
            if error is None and result.violation is not None and result.violation["rule"] == best_violation["rule"]:
                best, best_violation = candidate, result.violation
                improved = True
                break
    return best, best_violation, execs


def scenario_for(prop, tier, base_seed, index):
    seed = core.derive_seed(base_seed, prop.ID, index)
    scenario = prop.generate(seed, tier)
    scenario["property"] = prop.ID
    scenario["seed"] = seed
    scenario["index"] = index
    return scenario


def _new_acc():
    return {"n": 0, "nontrivial": 0, "sigs": set(), "states": set(), "probes": {}, "faults": {}, "ticks": 0,
            "violations": [], "errors": [], "samples": [], "digests": {}, "raw_counts": {}}


def _account(acc, scenario, result, keep_digest, want_sample):
    acc["n"] += result.weight
    acc["ticks"] += result.ticks
    for key, value in result.probes.items():
        acc["probes"][key] = acc["probes"].get(key, 0) + value
    for key, value in result.faults.items():
        acc["faults"][key] = acc["faults"].get(key, 0) + value
    if result.nontrivial:
        acc["nontrivial"] += 1 if not result.extra_sigs else len(result.extra_sigs)
        if result.schedule_sig is not None:
            acc["sigs"].add(core.short_hash(result.schedule_sig))
        for extra in result.extra_sigs:
            acc["sigs"].add(extra if isinstance(extra, bytes) else core.short_hash(extra))
    for state in result.state_sigs:
        acc["states"].add(core.short_hash(state))
    if keep_digest:
        acc["digests"][scenario["index"]] = result.digest
    if want_sample and result.nontrivial and len(acc["samples"]) < 2:
        acc["samples"].append({"scenario": scenario, "trace": result.trace})


def _twice_in_one_process(prop_id, tier, base_seed, det_count):
    prop = load_prop(prop_id)
    digests, problems = {}, []
    for index in range(det_count):
        first, error1 = safe_execute(prop, scenario_for(prop, tier, base_seed, index))
        second, error2 = safe_execute(prop, scenario_for(prop, tier, base_seed, index))
        if error1 or error2:
            problems.append("self-test run %d failed: %s" % (index, error1 or error2))
            break
        if first.digest != second.digest:
            problems.append("nondeterminism: run %d differs between two executions in one process" % index)
        digests[index] = first.digest
    return digests, problems


def _batch_scenarios(prop, tier, base_seed, start, count, source):
    if source == "search":
        return (scenario_for(prop, tier, base_seed, index) for index in range(start, start + count))
    return prop.sweep_slice(tier, start, count)


def _run_batch(prop_id, tier, base_seed, start, count, digest_below, source):
    """Runs in a forked child of a pool worker: executes the batch sequentially in ONE process (so that
    process-global state of the code under test can leak from one scenario to the next, as it would in
    a long-running program) and reports raw violations with their position in the batch."""
    prop = load_prop(prop_id)
    acc = _new_acc()
    seen_raw = set()
    for position, scenario in enumerate(_batch_scenarios(prop, tier, base_seed, start, count, source)):
        result, error = safe_execute(prop, scenario)
        if error is not None:
            if len(acc["errors"]) < 3:
                acc["errors"].append(error)
            acc["n"] += 1
            continue
        _account(acc, scenario, result, source == "search" and scenario.get("index", 1 << 60) < digest_below,
                 source == "search" and start == 0)
        if result.violation is not None:
            raw_key = core.sig_key(result.violation)
            acc["raw_counts"][raw_key] = acc["raw_counts"].get(raw_key, 0) + 1
            if raw_key not in seen_raw and len(seen_raw) < 6:
                seen_raw.add(raw_key)
                acc["violations"].append({"scenario": scenario, "violation": result.violation, "raw": raw_key,
                                          "position": position, "original_index": scenario.get("index")})
    return acc


def _work(prop_id, tier, base_seed, start, count, digest_below, source):
    """Pool worker (stays pristine: it never executes a scenario itself)."""
    faulthandler.dump_traceback_later(BATCH_WATCHDOG_S, exit=True)
    try:
        prop = load_prop(prop_id)
        acc = in_child(_run_batch, prop_id, tier, base_seed, start, count, digest_below, source)
        confirmed = []
        for item in acc["violations"]:
            scenario, violation = item["scenario"], item["violation"]
            scenario.pop("_single", None)
            result, error = execute_isolated(prop, scenario)
            if error is not None or result.violation is None or result.violation["rule"] != violation["rule"]:
                # not reproducible alone: it needs what ran before it in the same process
                earlier = list(itertools.islice(_batch_scenarios(prop, tier, base_seed, start, count, source),
                                                item["position"]))
                candidate = dict(scenario, _history=earlier)
                result, error = execute_isolated(prop, candidate)
                if error is not None or result.violation is None:
                    acc["errors"].append("violation %s at batch %s[%d..] position %d reproduces neither alone nor with "
                                         "the batch prefix as process history; detail: %s" % (
                                             item["raw"], source, start, item["position"], item["violation"].get("detail", "")[:900]))
                    continue
                scenario, violation = candidate, result.violation
            else:
                violation = result.violation
            small, small_violation, execs = shrink(prop, scenario, violation, executor=execute_isolated)
            confirmed.append({"scenario": small, "violation": small_violation, "raw": item["raw"], "shrink_execs": execs,
                              "original_index": item.get("original_index")})
        acc["violations"] = confirmed
        return acc
    finally:
        faulthandler.cancel_dump_traceback_later()


def _merge(total, part):
    total["n"] += part["n"]
    total["nontrivial"] += part["nontrivial"]
    total["ticks"] += part["ticks"]
    total["sigs"] |= part["sigs"]
    total["states"] |= part["states"]
    for name in ("probes", "faults", "raw_counts"):
        for key, value in part[name].items():
            total[name][key] = total[name].get(key, 0) + value
    total["violations"].extend(part["violations"])
    total["errors"].extend(part["errors"][: max(0, 5 - len(total["errors"]))])
    if len(total["samples"]) < 3:
        total["samples"].extend(part["samples"][: 3 - len(total["samples"])])
    total["digests"].update(part["digests"])


def load_known_findings(prop_id):
    if not os.path.exists(KNOWN_FINDINGS):
        return {}
    with open(KNOWN_FINDINGS, "r", encoding="utf-8") as stream:
        entries = json.load(stream)
    return {entry["sig"]: entry for entry in entries.get("findings", [])
            if entry.get("property") == prop_id and entry.get("status") == "known"}


def fresh_digests(prop_id, tier, base_seed, count, hashseed):
    env = dict(os.environ)
    env["PYTHONHASHSEED"] = str(hashseed)
    env["VERIF_SEED"] = str(base_seed)
    command = [sys.executable, os.path.join(VERIF, "sim", "cli.py"), prop_id, "--tier", tier, "--digests", str(count)]
    proc = subprocess.run(command, env=env, stdout=subprocess.PIPE, stderr=subprocess.PIPE, text=True, timeout=900)
    if proc.returncode != 0:
        raise HarnessError("digest subprocess failed: %s\n%s" % (proc.returncode, proc.stderr[-3000:]))
    return json.loads(proc.stdout.strip().splitlines()[-1])


def _enter_scratch():
    """Scratch directory of this invocation; it is also made the working directory, so that code under test that
    gets past the storage seam with a relative path (a regression opening files some other way) litters the
    scratch directory, not /verif."""
    scratch = "/dev/shm/verif-scratch-%d" % os.getpid()
    os.environ["VERIF_SCRATCH"] = scratch
    os.makedirs(os.path.join(scratch, "cwd"), exist_ok=True)
    os.chdir(os.path.join(scratch, "cwd"))
    return scratch


def print_digests(prop_id, tier, base_seed, count):
    scratch = _enter_scratch()
    try:
        return _print_digests(prop_id, tier, base_seed, count)
    finally:
        shutil.rmtree(scratch, ignore_errors=True)


def _print_digests(prop_id, tier, base_seed, count):
    prop = load_prop(prop_id)
    digests = {}
    for index in range(count):
        result, error = safe_execute(prop, scenario_for(prop, tier, base_seed, index))
        digests[str(index)] = error if error is not None else result.digest
    print(json.dumps(digests))
    return 0


def replay(prop_id, path):
    path = os.path.abspath(path)
    scratch = _enter_scratch()
    try:
        return _replay(prop_id, path)
    finally:
        shutil.rmtree(scratch, ignore_errors=True)


def _replay(prop_id, path):
    prop = load_prop(prop_id)
    with open(path, "r", encoding="utf-8") as stream:
        stored = json.load(stream)
    result, error = safe_execute(prop, stored["scenario"])
    if error is not None:
        print("HARNESS-ERROR during replay:\n" + error)
        return 2
    if result.violation is None:
        print("replay of %s: no violation (property held on the recorded scenario)" % path)
        return 0
    key = core.sig_key(result.violation)
    print("replay of %s: %s" % (path, json.dumps(result.violation, sort_keys=True)))
    print("REPLAY-SIGNATURE %s" % key)
    print("REPLAY-DIGEST %s" % result.digest)
    if key == stored.get("sig") and result.digest == stored.get("digest"):
        print("VIOLATION property=%s replay=%s" % (prop_id, path))
        return 1
    print("replay produced a different violation or history than recorded (recorded sig=%s digest=%s)" % (
        stored.get("sig"), stored.get("digest")))
    return 1


def _sensitivity_catalogue(prop_id):
    """What exists for judging this check's sensitivity (not run by the check itself)."""
    prefix = prop_id.lower() + "_"
    mutants = sorted(name for name in os.listdir(os.path.join(VERIF, "mutants")) if name.startswith(prefix)) \
        if os.path.isdir(os.path.join(VERIF, "mutants")) else []
    seeds = {}
    seeded = os.path.join(VERIF, "seeded")
    for name in sorted(os.listdir(seeded)) if os.path.isdir(seeded) else []:
        meta_path = os.path.join(seeded, name, "meta.json")
        if not os.path.exists(meta_path):
            continue
        with open(meta_path, "r", encoding="utf-8") as stream:
            meta = json.load(stream)
        verdict = (meta.get("checks") or {}).get(prop_id)
        if verdict is not None:
            seeds[name] = "detected" if verdict.get("exit") == 1 else "exit %s" % verdict.get("exit")
    return {"hand_written_mutants": mutants, "seeded_regressions_last_recorded_verdict": seeds,
            "how": "tools/mutants_all.sh and tools/seed_intake.py apply each patch to a scratch copy of /repo and run this "
                   "check's quick tier against it; verdicts are recorded in seeded/<name>/meta.json"}


def run_check(prop_id, tier, base_seed):
    scratch = _enter_scratch()
    try:
        return _run_check(prop_id, tier, base_seed)
    finally:
        shutil.rmtree(scratch, ignore_errors=True)


def _run_check(prop_id, tier, base_seed):
    started = time.time()
    prop = load_prop(prop_id)
    workers = int(os.environ.get("VERIF_WORKERS", "16"))
    os.makedirs(EVIDENCE_DIR, exist_ok=True)
    os.makedirs(REPLAY_DIR, exist_ok=True)
    known = load_known_findings(prop_id)
    harness_problems = []

    quick_runs = int(os.environ.get("VERIF_RUNS", prop.QUICK_RUNS))
    budget_s = float(os.environ.get("VERIF_BUDGET_S", "600"))
    batch = max(10, getattr(prop, "BATCH", 250))
    det_count = 24 if tier == "quick" else 120

    # ---- determinism, part 1: same run twice in one process (a forked child: this process never executes a
    # scenario itself, so that the children it forks later start from a pristine state) ------------------
    local_digests, problems = in_child(_twice_in_one_process, prop_id, tier, base_seed, det_count)
    harness_problems.extend(problems)

    total = _new_acc()
    context = multiprocessing.get_context("fork")
    sweep_total = 0
    sweep_exhaustive = None
    with concurrent.futures.ProcessPoolExecutor(max_workers=workers, mp_context=context) as pool:
        pending = set()
        # bounded sweeps first (deterministic enumeration of named boundary sets)
        if hasattr(prop, "sweep_size"):
            sweep_total = prop.sweep_size(tier)
            sweep_exhaustive = getattr(prop, "SWEEP_EXHAUSTIVE_NOTE", None)
            sweep_batch = max(50, getattr(prop, "SWEEP_BATCH", 500))
            for start in range(0, sweep_total, sweep_batch):
                pending.add(pool.submit(_work, prop_id, tier, base_seed, start, min(sweep_batch, sweep_total - start),
                                        0, "sweep"))
        next_index = 0
        deadline = started + budget_s

        def more_wanted():
            if tier == "quick":
                return next_index < quick_runs
            return time.time() < deadline or next_index < quick_runs

        try:
            while pending or more_wanted():
                while more_wanted() and len(pending) < workers * 2:
                    count = batch if tier != "quick" else min(batch, quick_runs - next_index)
                    pending.add(pool.submit(_work, prop_id, tier, base_seed, next_index, count, det_count, "search"))
                    next_index += count
                done, pending = concurrent.futures.wait(pending, return_when=concurrent.futures.FIRST_COMPLETED)
                for future in done:
                    _merge(total, future.result())
        except concurrent.futures.process.BrokenProcessPool as error:
            harness_problems.append("worker died (watchdog or crash): %s" % error)

    # ---- determinism, part 2: forked workers and a fresh interpreter with another hash seed --
    mismatches = 0
    for index, value in local_digests.items():
        if index in total["digests"] and total["digests"][index] != value:
            mismatches += 1
            harness_problems.append("nondeterminism: run %d differs between main process and pool worker" % index)
    fresh_count = 0
    try:
        fresh = fresh_digests(prop_id, tier, base_seed, det_count, 4242 + base_seed % 1000)
        for index, value in local_digests.items():
            fresh_count += 1
            if fresh.get(str(index)) != value:
                mismatches += 1
                harness_problems.append("nondeterminism: run %d differs in a fresh interpreter with another "
                                        "PYTHONHASHSEED" % index)
    except Exception as error:  # noqa
        harness_problems.append("fresh interpreter self-test failed: %s" % error)

    harness_problems.extend("harness exception inside a run:\n" + text for text in total["errors"])

    # ---- violations: group by minimised signature, match known findings, write replays -------
    by_sig = {}
    for item in total["violations"]:
        key = core.sig_key(item["violation"])
        current = by_sig.get(key)
        if current is None or len(core.canonical(item["scenario"])) < len(core.canonical(current["scenario"])):
            by_sig[key] = item
    new_violations = []
    known_matched = []
    for key in sorted(by_sig):
        item = by_sig[key]
        if key in known:
            known_matched.append(key)
            print("KNOWN-FINDING: property=%s %s [%s]" % (prop_id, known[key]["what"], key))
            continue
        result, error = execute_isolated(prop, item["scenario"])
        if error is not None or result.violation is None:
            harness_problems.append("minimised scenario for %s does not reproduce in an isolated process: %s" % (key, error))
            continue
        name = "%s-%s-%s.json" % (prop_id, base_seed, core.digest(item["scenario"])[:12])
        path = os.path.join(REPLAY_DIR, name)
        stored = {"property": prop_id, "sig": core.sig_key(result.violation), "violation": result.violation,
                  "digest": result.digest, "scenario": item["scenario"], "trace": result.trace,
                  "found_at": {"VERIF_SEED": base_seed, "tier": tier, "run_index": item.get("original_index"),
                               "shrink_executions": item.get("shrink_execs")}}
        with open(path, "w", encoding="utf-8") as stream:
            json.dump(stored, stream, indent=1, sort_keys=True, default=core._default)
        env = dict(os.environ)
        env["PYTHONHASHSEED"] = "777"
        proc = subprocess.run([sys.executable, os.path.join(VERIF, "sim", "cli.py"), prop_id, "--replay", path],
                              env=env, stdout=subprocess.PIPE, stderr=subprocess.STDOUT, text=True, timeout=900)
        if proc.returncode == 1 and ("VIOLATION property=%s replay=%s" % (prop_id, path)) in proc.stdout:
            new_violations.append((key, path, result.violation))
        else:
            harness_problems.append("violation %s did not replay identically in a fresh interpreter:\n%s" % (
                key, proc.stdout[-2000:]))

    # ---- reach: probes that must not be stuck at zero ---------------------------------------
    stuck = [name for name in getattr(prop, "PROBES_REQUIRED", []) if not total["probes"].get(name)]
    for name in stuck:
        message = "probe '%s' never fired in this %s run" % (name, tier)
        if tier == "thorough":
            harness_problems.append(message)
        else:
            print("WARNING: " + message)

    wall = time.time() - started
    evaluations = total["n"]
    coverage = {
        "evaluations": evaluations,
        "distinct_nontrivial": len(total["sigs"]),
        "rule": prop.RULE_TEXT,
        "samples": total["samples"][:3] or [{"note": "no non-trivial sample recorded"}],
        "nontrivial_runs": total["nontrivial"],
        "seeded_runs": next_index,
        "sweep_cases": sweep_total,
        "sweep_note": sweep_exhaustive,
        "exhaustive": False,
        "runs_per_hour": int(evaluations / wall * 3600) if wall > 0 else 0,
        "seeds": {"VERIF_SEED": base_seed, "derivation": "sha256(VERIF_SEED/property/run index)",
                  "run_indices": [0, next_index]},
        "sim_ticks": total["ticks"],
        "clock": "logical ticks (events of the simulated run); the code under test reads no clock",
        "faults_fired": dict(sorted(total["faults"].items())),
        "probes": dict(sorted(total["probes"].items())),
        "probes_stuck_at_zero": stuck,
        "schedule_signatures": len(total["sigs"]),
        "model_states": len(total["states"]),
        "determinism": {"runs_checked_twice_in_process": len(local_digests),
                        "runs_checked_in_pool_workers": len([i for i in local_digests if i in total["digests"]]),
                        "runs_checked_in_fresh_interpreter_other_hashseed": fresh_count, "mismatches": mismatches},
        "components": getattr(prop, "COMPONENTS", {}),
        "known_findings_matched": known_matched,
        "violation_signatures_seen": dict(sorted(total["raw_counts"].items())),
        "workers": workers,
        "repo": boot.REPO,
        "sensitivity_catalogue": _sensitivity_catalogue(prop_id),
    }
    evidence = {
        "property_id": prop_id,
        "tier": tier,
        "seed": base_seed,
        "level": prop.LEVEL,
        "coverage": coverage,
        "assumptions": list(prop.ASSUMPTIONS),
        "wall_s": round(wall, 2),
        "violations": len(new_violations),
    }
    with open(os.path.join(EVIDENCE_DIR, prop_id + ".json"), "w", encoding="utf-8") as stream:
        json.dump(evidence, stream, indent=1, sort_keys=True, default=core._default)

    print("%s %s seed=%d: %d runs (%d non-trivial, %d distinct schedule signatures, %d model states) in %.1f s; "
          "faults=%s" % (prop_id, tier, base_seed, evaluations, total["nontrivial"], len(total["sigs"]),
                         len(total["states"]), wall, json.dumps(coverage["faults_fired"])))
    for key, path, violation in new_violations:
        print("violation: %s" % json.dumps(violation, sort_keys=True))
        print("VIOLATION property=%s replay=%s" % (prop_id, path))
    if harness_problems:
        for text in harness_problems[:10]:
            print("HARNESS-FAILURE: " + text)
        return 1 if new_violations else 2
    return 1 if new_violations else 0
