"""Import cutplace from the tree under test (VERIF_REPO, default /repo) — "rebuild" = import."""
import logging
import os
import sys
import warnings

REPO = os.path.abspath(os.environ.get("VERIF_REPO", "/repo"))
VERIF = os.path.dirname(os.path.dirname(os.path.abspath(__file__)))


def boot():
    if VERIF not in sys.path:
        sys.path.insert(0, VERIF)
    if sys.path[0] != REPO:
        if REPO in sys.path:
            sys.path.remove(REPO)
        sys.path.insert(0, REPO)
    warnings.filterwarnings("ignore")
    # suspended cutplace.rows() generators are finalised when a simulated world is torn down; a
    # CheckError raised by that late close is expected there and is not part of any outcome
    sys.unraisablehook = lambda unraisable: None
    import cutplace  # noqa: F401

    actual = os.path.dirname(os.path.dirname(os.path.abspath(cutplace.__file__)))
    if actual != REPO:
        raise RuntimeError("cutplace imported from %s instead of %s" % (actual, REPO))
    logger = logging.getLogger("cutplace")
    logger.handlers[:] = [logging.NullHandler()]
    logger.propagate = False
    return cutplace
