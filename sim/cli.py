"""Entry point: cli.py <ID> [--tier quick|thorough] [--replay FILE] [--digests N]."""
import argparse
import os
import sys

sys.path.insert(0, os.path.dirname(os.path.dirname(os.path.abspath(__file__))))
from sim import boot  # noqa: E402

boot.boot()
from sim import runner  # noqa: E402


def main(argv=None):
    parser = argparse.ArgumentParser()
    parser.add_argument("prop")
    parser.add_argument("--tier", default=os.environ.get("VERIF_TIER", "quick"), choices=["quick", "thorough"])
    parser.add_argument("--replay")
    parser.add_argument("--digests", type=int)
    args = parser.parse_args(argv)
    prop_id = args.prop.upper()
    base_seed = int(os.environ.get("VERIF_SEED", "0") or 0)
    if args.replay:
        return runner.replay(prop_id, args.replay)
    if args.digests is not None:
        return runner.print_digests(prop_id, args.tier, base_seed, args.digests)
    return runner.run_check(prop_id, args.tier, base_seed)


if __name__ == "__main__":
    sys.exit(main())
