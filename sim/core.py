"""World core: seed derivation, named PRNG streams, history and digest.

One integer decides everything: ``derive_seed(VERIF_SEED, property, run index)`` and from it
named streams ``random.Random("<seed>/<label>")``.  String seeding goes through SHA-512 in
CPython, so it does not depend on PYTHONHASHSEED.  Nothing here reads a clock.
"""
import hashlib
import json
import random


def derive_seed(base_seed, prop, index):
    text = "%s/%s/%s" % (base_seed, prop, index)
    return int.from_bytes(hashlib.sha256(text.encode("ascii")).digest()[:7], "big")


def stream(seed, label):
    return random.Random("%s/%s" % (seed, label))


def canonical(obj):
    return json.dumps(obj, sort_keys=True, ensure_ascii=True, separators=(",", ":"), default=_default)


def _default(obj):
    if isinstance(obj, (set, frozenset)):
        return sorted(obj)
    if isinstance(obj, bytes):
        return {"__bytes__": obj.hex()}
    if isinstance(obj, tuple):
        return list(obj)
    return repr(obj)


def digest(obj):
    return hashlib.sha256(canonical(obj).encode("ascii")).hexdigest()


def short_hash(obj):
    return hashlib.sha256(canonical(obj).encode("ascii")).digest()[:8]


class History(object):
    """Totally ordered record of everything observable in one run (logical clock = index)."""

    def __init__(self):
        self.events = []

    def add(self, actor, event, payload=None):
        self.events.append([len(self.events), actor, event, payload])

    @property
    def ticks(self):
        return len(self.events)

    def digest(self):
        return digest(self.events)


class Violation(Exception):
    """Raised by an oracle; carries the rule that fired and culprit features."""

    def __init__(self, rule, features=(), detail=""):
        super().__init__("%s %s %s" % (rule, sorted(features), detail))
        self.rule = rule
        self.features = sorted(set(features))
        self.detail = detail

    def as_dict(self):
        return {"rule": self.rule, "features": self.features, "detail": self.detail}


def sig_key(violation_dict):
    return "%s|%s" % (violation_dict["rule"], ",".join(violation_dict["features"]))


class Result(object):
    """Outcome of executing one scenario."""

    __slots__ = ("violation", "digest", "ticks", "probes", "faults", "schedule_sig", "nontrivial", "state_sigs", "trace",
                 "weight", "extra_sigs")

    def __init__(self):
        self.violation = None  # dict(rule, features, detail) or None
        self.digest = None
        self.ticks = 0
        self.probes = {}
        self.faults = {}
        self.schedule_sig = None
        self.nontrivial = False
        self.state_sigs = ()
        self.trace = None
        self.weight = 1  # number of evaluations this result stands for (sweep blocks run many)
        self.extra_sigs = ()  # further distinct non-trivial case signatures (sweep blocks)

    def probe(self, name, amount=1):
        self.probes[name] = self.probes.get(name, 0) + amount

    def fault(self, kind, amount=1):
        self.faults[kind] = self.faults.get(kind, 0) + amount
