"""XLSX peer: a minimal OOXML spreadsheet encoder written from the specification, independent of
xlrd (the reader under test) and of xlsxwriter.

``encode(sheets)``: sheets is a list of tables; a table is a list of rows; a cell is one of
  ("s", text)            inline string
  ("ss", text)           shared string
  ("n", number-text)     number; the text is written verbatim into <v> (e.g. repr(float))
  ("b", True/False)      boolean
  ("d", serial-text)     date-time serial with a date-time number format
  ("t", serial-text)     time-of-day serial (0 <= serial < 1) with a time number format
  ("date", serial-text)  date serial with a date-only number format
  None                   no cell at all (a gap)
"""
import io
import re
import zipfile

_CT = (
    '<?xml version="1.0" encoding="UTF-8" standalone="yes"?>'
    '<Types xmlns="http://schemas.openxmlformats.org/package/2006/content-types">'
    '<Default Extension="rels" ContentType="application/vnd.openxmlformats-package.relationships+xml"/>'
    '<Default Extension="xml" ContentType="application/xml"/>'
    '<Override PartName="/xl/workbook.xml" ContentType="application/vnd.openxmlformats-officedocument.spreadsheetml.sheet.main+xml"/>'
    '<Override PartName="/xl/styles.xml" ContentType="application/vnd.openxmlformats-officedocument.spreadsheetml.styles+xml"/>'
    '<Override PartName="/xl/sharedStrings.xml" ContentType="application/vnd.openxmlformats-officedocument.spreadsheetml.sharedStrings+xml"/>'
    "%s</Types>"
)
_RELS = (
    '<?xml version="1.0" encoding="UTF-8" standalone="yes"?>'
    '<Relationships xmlns="http://schemas.openxmlformats.org/package/2006/relationships">'
    '<Relationship Id="rId1" Type="http://schemas.openxmlformats.org/officeDocument/2006/relationships/officeDocument" Target="xl/workbook.xml"/>'
    "</Relationships>"
)
_STYLES = (
    '<?xml version="1.0" encoding="UTF-8" standalone="yes"?>'
    '<styleSheet xmlns="http://schemas.openxmlformats.org/spreadsheetml/2006/main">'
    '<numFmts count="1"><numFmt numFmtId="164" formatCode="yyyy\\-mm\\-dd\\ hh:mm:ss"/></numFmts>'
    '<fonts count="1"><font><sz val="11"/><name val="Calibri"/></font></fonts>'
    '<fills count="1"><fill><patternFill patternType="none"/></fill></fills>'
    '<borders count="1"><border><left/><right/><top/><bottom/><diagonal/></border></borders>'
    '<cellStyleXfs count="1"><xf numFmtId="0" fontId="0" fillId="0" borderId="0"/></cellStyleXfs>'
    '<cellXfs count="4">'
    '<xf numFmtId="0" fontId="0" fillId="0" borderId="0" xfId="0"/>'
    '<xf numFmtId="164" fontId="0" fillId="0" borderId="0" xfId="0" applyNumberFormat="1"/>'
    '<xf numFmtId="21" fontId="0" fillId="0" borderId="0" xfId="0" applyNumberFormat="1"/>'
    '<xf numFmtId="14" fontId="0" fillId="0" borderId="0" xfId="0" applyNumberFormat="1"/>'
    "</cellXfs></styleSheet>"
)
_MAIN = "http://schemas.openxmlformats.org/spreadsheetml/2006/main"
_REL = "http://schemas.openxmlformats.org/officeDocument/2006/relationships"


_LITERAL_ESCAPE = re.compile(r"_(x[0-9A-Fa-f]{4}_)")


def _escape(text):
    # ECMA-376 22.9.2.19 (ST_Xstring): a literal "_xHHHH_" is stored with its first underscore escaped as "_x005F_"
    text = _LITERAL_ESCAPE.sub(r"_x005F_\1", text)
    return text.replace("&", "&amp;").replace("<", "&lt;").replace(">", "&gt;")


def column_name(index):
    name = ""
    index += 1
    while index:
        index, remainder = divmod(index - 1, 26)
        name = chr(65 + remainder) + name
    return name


def encode(sheets, stored=False, date1904=False, hidden=None):
    shared = []
    shared_index = {}
    sheet_xml = []
    for table in sheets:
        rows = []
        for row_index, row in enumerate(table):
            cells = []
            for column_index, cell in enumerate(row):
                if cell is None:
                    continue
                ref = "%s%d" % (column_name(column_index), row_index + 1)
                kind, value = cell
                if kind == "s":
                    cells.append('<c r="%s" t="inlineStr"><is><t xml:space="preserve">%s</t></is></c>' % (ref, _escape(value)))
                elif kind == "ss":
                    if value not in shared_index:
                        shared_index[value] = len(shared)
                        shared.append(value)
                    cells.append('<c r="%s" t="s"><v>%d</v></c>' % (ref, shared_index[value]))
                elif kind == "n":
                    cells.append('<c r="%s"><v>%s</v></c>' % (ref, value))
                elif kind == "b":
                    cells.append('<c r="%s" t="b"><v>%d</v></c>' % (ref, 1 if value else 0))
                elif kind == "d":
                    cells.append('<c r="%s" s="1"><v>%s</v></c>' % (ref, value))
                elif kind == "t":
                    cells.append('<c r="%s" s="2"><v>%s</v></c>' % (ref, value))
                elif kind == "date":
                    cells.append('<c r="%s" s="3"><v>%s</v></c>' % (ref, value))
                else:
                    raise ValueError("cell kind %r" % (kind,))
            rows.append('<row r="%d">%s</row>' % (row_index + 1, "".join(cells)))
        sheet_xml.append('<?xml version="1.0" encoding="UTF-8" standalone="yes"?><worksheet xmlns="%s">'
                         "<sheetData>%s</sheetData></worksheet>" % (_MAIN, "".join(rows)))
    count = len(sheets)
    overrides = "".join(
        '<Override PartName="/xl/worksheets/sheet%d.xml" ContentType="application/vnd.openxmlformats-officedocument.'
        'spreadsheetml.worksheet+xml"/>' % (index + 1) for index in range(count))
    workbook = ('<?xml version="1.0" encoding="UTF-8" standalone="yes"?><workbook xmlns="%s" xmlns:r="%s">%s<sheets>%s'
                "</sheets></workbook>") % (_MAIN, _REL, '<workbookPr date1904="1"/>' if date1904 else "", "".join(
                    '<sheet name="Sheet%d" sheetId="%d"%s r:id="rId%d"/>' % (
                        i + 1, i + 1, ' state="%s"' % (hidden or {})[i] if i in (hidden or {}) else "", i + 1) for i in range(count)))
    workbook_rels = ('<?xml version="1.0" encoding="UTF-8" standalone="yes"?><Relationships xmlns="http://schemas.'
                     'openxmlformats.org/package/2006/relationships">%s'
                     '<Relationship Id="rId%d" Type="%s/styles" Target="styles.xml"/>'
                     '<Relationship Id="rId%d" Type="%s/sharedStrings" Target="sharedStrings.xml"/>'
                     "</Relationships>") % ("".join(
                         '<Relationship Id="rId%d" Type="%s/worksheet" Target="worksheets/sheet%d.xml"/>' % (
                             i + 1, _REL, i + 1) for i in range(count)), count + 1, _REL, count + 2, _REL)
    shared_xml = ('<?xml version="1.0" encoding="UTF-8" standalone="yes"?><sst xmlns="%s" count="%d" uniqueCount="%d">%s'
                  "</sst>") % (_MAIN, len(shared), len(shared), "".join(
                      '<si><t xml:space="preserve">%s</t></si>' % _escape(text) for text in shared))
    buffer = io.BytesIO()
    compression = zipfile.ZIP_STORED if stored else zipfile.ZIP_DEFLATED
    with zipfile.ZipFile(buffer, "w") as zip_file:
        members = [("[Content_Types].xml", _CT % overrides), ("_rels/.rels", _RELS), ("xl/workbook.xml", workbook),
                   ("xl/_rels/workbook.xml.rels", workbook_rels), ("xl/styles.xml", _STYLES),
                   ("xl/sharedStrings.xml", shared_xml)]
        members += [("xl/worksheets/sheet%d.xml" % (i + 1), xml) for i, xml in enumerate(sheet_xml)]
        for name, text in members:
            info = zipfile.ZipInfo(name, date_time=(2020, 1, 1, 0, 0, 0))
            info.compress_type = compression
            zip_file.writestr(info, text.encode("utf-8"))
    return buffer.getvalue()


def text_table(table):
    """Table of str -> cells as inline strings."""
    return [[("s", cell) for cell in row] for row in table]
