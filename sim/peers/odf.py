"""ODF peer: an independent OpenDocument spreadsheet encoder written from the specification.

``encode(sheets, features, rng)`` returns the bytes of an .ods archive.  ``sheets`` is a list of
logical tables (list of rows, each a list of str).  The logical table *is* the oracle.  Optional
encodings are switched by ``features`` (a set of names):

colruns     runs of equal adjacent cells as table:number-columns-repeated
rowruns     runs of equal adjacent rows as table:number-rows-repeated
s-single    a single interior blank as <text:s/> instead of a literal blank
s-noc       <text:s/> without text:c for exactly one blank
paragraphs  line breaks as several <text:p> instead of <text:line-break/>
spans       part of the text wrapped into (nested) <text:span>
emptyp      empty cell as <table:table-cell><text:p/></table:table-cell> instead of no paragraph
stored      zip members stored instead of deflated
utf16 / latin1   document encoding of content.xml (latin1 only if every character fits)
colstyle    <table:table-column> elements in front of the rows
trailing-empty-run  a final run of empty cells with a repeat count in each row (as LibreOffice does)
annotations  non-empty cells carry a comment (office:annotation with its own text:p) in front of their text
filtered-rows  every second row carries table:visibility="filter" (hidden by an active filter: still a row of the sheet)
sub-table   the first non-empty cell of each sheet holds a table:table with table:is-sub-table="true" behind its text
dde-links   a table:dde-links element with a cached table:table behind the last sheet (no sheet of the document)

Whitespace that ODF would collapse (leading/trailing blanks, runs of blanks, tabs, line breaks) is
always written with the whitespace elements, because a literal would not denote the same text.
"""
import io
import zipfile

NS = {
    "office": "urn:oasis:names:tc:opendocument:xmlns:office:1.0",
    "table": "urn:oasis:names:tc:opendocument:xmlns:table:1.0",
    "text": "urn:oasis:names:tc:opendocument:xmlns:text:1.0",
    "style": "urn:oasis:names:tc:opendocument:xmlns:style:1.0",
}
ALL_FEATURES = ["colruns", "rowruns", "s-single", "s-noc", "paragraphs", "spans", "emptyp", "stored", "utf16",
                "latin1", "colstyle", "trailing-empty-run", "annotations", "embedded-object", "links", "header-rows", "row-groups",
                "covered-cells", "no-value-type", "no-mimetype", "filtered-rows", "sub-table", "dde-links"]


def _escape(text):
    return text.replace("&", "&amp;").replace("<", "&lt;").replace(">", "&gt;")


def _encode_run(text, features):
    """Encode one line-break-free stretch of cell text (no LF) into mixed content."""
    out = []
    index = 0
    length = len(text)
    while index < length:
        char = text[index]
        if char == " ":
            end = index
            while end < length and text[end] == " ":
                end += 1
            count = end - index
            at_edge = index == 0 or end == length
            if count == 1 and not at_edge and "s-single" not in features:
                out.append(" ")
            else:
                literal_first = not at_edge and index > 0 and "s-single" not in features
                if literal_first:
                    out.append(" ")
                    count -= 1
                if count == 1 and "s-noc" in features:
                    out.append("<text:s/>")
                elif count >= 1:
                    out.append('<text:s text:c="%d"/>' % count)
            index = end
        elif char == "\t":
            out.append("<text:tab/>")
            index += 1
        else:
            out.append(_escape(char))
            index += 1
    return "".join(out)


def _paragraph_content(text, features, used):
    parts = text.split("\n")
    encoded = []
    for part in parts:
        if " " in part and (part.startswith(" ") or part.endswith(" ") or "  " in part or "s-single" in features):
            used.add("text:s")
        if "\t" in part:
            used.add("text:tab")
        content = _encode_run(part, features)
        if "spans" in features and len(part) >= 2 and "<" not in content and "&" not in content:
            middle = len(content) // 2
            content = '%s<text:span text:style-name="T1">%s<text:span text:style-name="T2">%s</text:span></text:span>' % (
                content[: middle // 2], content[middle // 2: middle], content[middle:])
            used.add("text:span")
        elif "spans" in features and part:
            content = '<text:span text:style-name="T1">%s</text:span>' % content
            used.add("text:span")
        if "links" in features and part:
            # what a spreadsheet program makes of a typed URL or e-mail address: the text sits inside a link element
            content = '<text:a xlink:type="simple" xlink:href="http://example.org/">%s</text:a>' % content
            used.add("text:a")
        encoded.append(content)
    return encoded


def _cell_xml(text, features, used, attribute=""):
    if text == "":
        if "emptyp" in features:
            used.add("empty-paragraph")
            return "<table:table-cell%s><text:p/></table:table-cell>" % attribute
        return "<table:table-cell%s/>" % attribute
    contents = _paragraph_content(text, features, used)
    if len(contents) > 1:
        if "paragraphs" in features:
            used.add("paragraphs")
            body = "".join("<text:p>%s</text:p>" % content for content in contents)
        else:
            used.add("text:line-break")
            body = "<text:p>%s</text:p>" % "<text:line-break/>".join(contents)
    else:
        body = "<text:p>%s</text:p>" % contents[0]
    if "annotations" in features:
        used.add("office:annotation")
        body = ('<office:annotation><dc:date>2020-01-01T00:00:00</dc:date><text:p>a comment</text:p><text:p>'
                "on two lines</text:p></office:annotation>") + body
    if "sub-table" in features and "sub-table-done" not in used:
        # a table nested in a cell (ODF 9.1.2 table:is-sub-table): content of that cell, no sheet of the document
        used.add("sub-table-done")
        used.add("sub-table")
        body += ('<table:table table:name="nested" table:is-sub-table="true"><table:table-column/><table:table-row>'
                 '<table:table-cell office:value-type="string"><text:p>nested</text:p></table:table-cell></table:table-row>'
                 "</table:table>")
    if "no-value-type" in features:
        # office:value-type is optional: a cell with paragraphs is a text cell without it
        used.add("no-value-type")
        return "<table:table-cell%s>" % attribute + body + "</table:table-cell>"
    return '<table:table-cell%s office:value-type="string">' % attribute + body + "</table:table-cell>"


def _row_xml(row, features, used):
    cells = []
    index = 0
    items = list(row)
    trailing_run = 0
    if "trailing-empty-run" in features:
        trailing_run = 3
    while index < len(items):
        end = index + 1
        if "colruns" in features:
            while end < len(items) and items[end] == items[index]:
                end += 1
        count = end - index
        attribute = ""
        if count > 1:
            attribute = ' table:number-columns-repeated="%d"' % count
            used.add("number-columns-repeated")
        elif "covered-cells" in features and items[index] != "" and index + 1 < len(items) and items[index + 1] == "":
            # a merged cell: the text sits in the spanning cell, the place it covers is a cell without content
            cells.append(_cell_xml(items[index], features, used, ' table:number-columns-spanned="2"'))
            cells.append("<table:covered-table-cell/>")
            used.add("covered-table-cell")
            index += 2
            continue
        cells.append(_cell_xml(items[index], features, used, attribute))
        index = end
    if trailing_run:
        cells.append('<table:table-cell table:number-columns-repeated="%d"/>' % trailing_run)
    return "".join(cells)


def content_xml(sheets, features, used=None, repeats=None):
    """content.xml text (str).  ``repeats`` optionally overrides repeat attributes for fault tests."""
    used = used if used is not None else set()
    out = ['<office:document-content xmlns:office="%s" xmlns:table="%s" xmlns:text="%s" xmlns:style="%s" '
           'xmlns:dc="http://purl.org/dc/elements/1.1/" xmlns:xlink="http://www.w3.org/1999/xlink" office:version="1.2">' % (
               NS["office"], NS["table"], NS["text"], NS["style"]),
           "<office:body><office:spreadsheet>"]
    for sheet_index, table in enumerate(sheets):
        used.discard("sub-table-done")
        out.append('<table:table table:name="Sheet%d">' % (sheet_index + 1))
        if "colstyle" in features:
            width = max([len(row) for row in table] or [1]) or 1
            out.append('<table:table-column table:number-columns-repeated="%d"/>' % width)
        index = 0
        elements = []
        while index < len(table):
            end = index + 1
            if "rowruns" in features:
                while end < len(table) and table[end] == table[index]:
                    end += 1
            count = end - index
            attribute = ""
            if count > 1:
                attribute = ' table:number-rows-repeated="%d"' % count
                used.add("number-rows-repeated")
            if "filtered-rows" in features and len(elements) % 2 == 1:
                attribute += ' table:visibility="filter"'
                used.add("filtered-row")
            elements.append("<table:table-row%s>%s</table:table-row>" % (attribute, _row_xml(table[index], features, used)))
            index = end
        if "row-groups" in features and len(elements) >= 2:
            # grouped (outline) rows sit in a wrapper element, possibly nested
            grouped = elements[1:3]
            elements[1:3] = ["<table:table-row-group>%s%s</table:table-row-group>" % (
                grouped[0], "<table:table-row-group>%s</table:table-row-group>" % grouped[1] if len(grouped) > 1 else "")]
            used.add("table-row-group")
        if "header-rows" in features and elements:
            # rows repeated on every printed page sit in a wrapper element
            elements[0] = "<table:table-header-rows>%s</table:table-header-rows>" % elements[0]
            used.add("table-header-rows")
        out.extend(elements)
        out.append("</table:table>")
    used.discard("sub-table-done")
    if "dde-links" in features:
        # the cached result of a DDE link: a table:table that is no sheet (ODF 9.8)
        used.add("dde-links")
        out.append('<table:dde-links><table:dde-link><office:dde-source office:dde-application="soffice" office:dde-topic="x.ods" '
                   'office:dde-item="Sheet1.A1"/><table:table><table:table-column/><table:table-row><table:table-cell '
                   'office:value-type="string"><text:p>cached</text:p></table:table-cell></table:table-row></table:table>'
                   "</table:dde-link></table:dde-links>")
    out.append("</office:spreadsheet></office:body></office:document-content>")
    return "".join(out)


def logical(sheets, features):
    """The logical tables as a reader must return them (the trailing empty run is real cells)."""
    if "trailing-empty-run" in features:
        return [[list(row) + [""] * 3 for row in table] for table in sheets]
    return [[list(row) for row in table] for table in sheets]


def document_encoding(sheets, features):
    if "utf16" in features:
        return "UTF-16"
    if "latin1" in features:
        try:
            for table in sheets:
                for row in table:
                    for cell in row:
                        cell.encode("iso-8859-1")
            return "ISO-8859-1"
        except UnicodeEncodeError:
            return "UTF-8"
    return "UTF-8"


def archive(content_bytes, features=(), members=None):
    """Zip up an .ods; ``members`` overrides/omits members (value None = leave out)."""
    buffer = io.BytesIO()
    compression = zipfile.ZIP_STORED if "stored" in features else zipfile.ZIP_DEFLATED
    files = [
        ("mimetype", b"application/vnd.oasis.opendocument.spreadsheet"),
        ("content.xml", content_bytes),
        ("META-INF/manifest.xml",
         b'<?xml version="1.0" encoding="UTF-8"?><manifest:manifest xmlns:manifest="urn:oasis:names:tc:opendocument:'
         b'xmlns:manifest:1.0"><manifest:file-entry manifest:full-path="/" manifest:media-type="application/vnd.oasis.'
         b'opendocument.spreadsheet"/><manifest:file-entry manifest:full-path="content.xml" manifest:media-type='
         b'"text/xml"/></manifest:manifest>'),
    ]
    if "embedded-object" in features:
        # an embedded chart: a document of its own inside the archive, stored in front of the spreadsheet's content
        embedded = ('<?xml version="1.0" encoding="UTF-8"?>\n<office:document-content %s><office:body><office:chart>'
                    '<table:table table:name="local-table"><table:table-row><table:table-cell office:value-type="string">'
                    '<text:p>chart</text:p></table:table-cell></table:table-row></table:table></office:chart></office:body>'
                    '</office:document-content>' % " ".join('xmlns:%s="%s"' % item for item in sorted(NS.items())))
        files[1:1] = [("Object 1/content.xml", embedded.encode("utf-8")),
                      ("Object 1/styles.xml", b'<?xml version="1.0" encoding="UTF-8"?><styles/>')]
    if "no-mimetype" in features:
        # the mimetype member is a recommendation for packages, re-zipped documents and small exporters lack it
        files = [entry for entry in files if entry[0] != "mimetype"]
    overrides = dict(members or {})
    with zipfile.ZipFile(buffer, "w") as zip_file:
        for name, data in files:
            if name in overrides:
                data = overrides.pop(name)
                if data is None:
                    continue
            info = zipfile.ZipInfo(name, date_time=(2020, 1, 1, 0, 0, 0))
            info.compress_type = zipfile.ZIP_STORED if name == "mimetype" else compression
            zip_file.writestr(info, data)
        for name, data in sorted(overrides.items()):
            if data is not None:
                info = zipfile.ZipInfo(name, date_time=(2020, 1, 1, 0, 0, 0))
                info.compress_type = compression
                zip_file.writestr(info, data)
    return buffer.getvalue()


def encode(sheets, features=()):
    """(archive bytes, features actually used in the encoding, logical tables)."""
    features = set(features)
    used = set()
    body = content_xml(sheets, features, used)
    encoding = document_encoding(sheets, features)
    if encoding != "UTF-8":
        used.add("encoding:" + encoding)
    text = '<?xml version="1.0" encoding="%s"?>\n%s' % (encoding, body)
    content_bytes = text.encode("utf-16" if encoding == "UTF-16" else encoding)
    return archive(content_bytes, features), used, logical(sheets, features)


def decode_reference(archive_bytes):
    """Independent decoder used only by the harness self-test (peer round trip)."""
    from xml.etree import ElementTree

    with zipfile.ZipFile(io.BytesIO(archive_bytes)) as zip_file:
        root = ElementTree.fromstring(zip_file.read("content.xml"))
    t, x = "{%s}" % NS["table"], "{%s}" % NS["text"]

    def text_of(element):
        parts = [element.text or ""]
        for child in element:
            if child.tag == x + "s":
                parts.append(" " * int(child.get(x + "c", "1")))
            elif child.tag == x + "tab":
                parts.append("\t")
            elif child.tag == x + "line-break":
                parts.append("\n")
            else:
                parts.append(text_of(child))
            parts.append(child.tail or "")
        return "".join(parts)

    def rows_of(element):
        # rows of a sheet sit in the table itself or in its grouping wrappers, never inside a cell
        for child in element:
            if child.tag == t + "table-row":
                yield child
            elif child.tag in (t + "table-row-group", t + "table-header-rows", t + "table-rows"):
                yield from rows_of(child)

    sheets = []
    spreadsheet = root.find("{%s}body/{%s}spreadsheet" % (NS["office"], NS["office"]))
    for table in [child for child in spreadsheet if child.tag == t + "table"]:
        rows = []
        for row in rows_of(table):
            cells = []
            for cell in [child for child in row if child.tag in (t + "table-cell", t + "covered-table-cell")]:
                value = "\n".join(text_of(p) for p in cell.findall(x + "p"))
                cells.extend([value] * int(cell.get(t + "number-columns-repeated", "1")))
            rows.extend([list(cells) for _ in range(int(row.get(t + "number-rows-repeated", "1")))])
        sheets.append(rows)
    return sheets
